// Package pipe runs the real reader -> batcher -> extractor pipeline of rare
// in process under a seeded configuration and delay schedule, records what
// happened (tap events, matches, counters) and provides the sequential
// reference used by C01, C02 and C05.
package pipe

import (
	"compress/gzip"
	"bytes"
	"fmt"
	"io"
	"os"
	"path/filepath"
	"regexp"
	"runtime"
	"sort"
	"strconv"
	"strings"
	"sync"
	"sync/atomic"
	"time"

	"rare/pkg/expressions"
	"rare/pkg/expressions/funclib"
	"rare/pkg/extractor"
	"rare/pkg/extractor/batchers"
	"rare/pkg/matchers"
	"rare/pkg/matchers/dissect"
	"rare/pkg/matchers/fastregex"
	"rare/pkg/minijson"
	"rare/pkg/verifhook"

	"verifharness/internal/ref"
	"verifharness/internal/run"
)

// ---------------------------------------------------------------- workload

type ReadStep struct {
	N       int `json:"n"`                  // bytes to hand out (0 = a (0,nil) stall)
	PauseMs int `json:"pause_ms,omitempty"` // sleep before this read returns
}

type Input struct {
	Name  string     `json:"name"`
	Data  []byte     `json:"data"`
	Steps []ReadStep `json:"steps,omitempty"` // reader mode only
	Gz    bool       `json:"gz,omitempty"`    // files mode with Cfg.Gunzip: the file on disk holds Data gzip-compressed
	Gone  bool       `json:"gone,omitempty"`  // files mode: the path is named but nothing exists there (cannot be opened; contributes no lines)
}

type MatcherSpec struct {
	Kind       string `json:"kind"` // regex | dissect | none
	Pattern    string `json:"pattern"`
	Posix      bool   `json:"posix,omitempty"`
	IgnoreCase bool   `json:"ignore_case,omitempty"`
}

type Config struct {
	Mode       string `json:"mode"` // files | reader
	Batch      int    `json:"batch"`
	Workers    int    `json:"workers"`
	Readers    int    `json:"readers"`
	Buffer     int    `json:"buffer"`
	GoMaxProcs int    `json:"gomaxprocs"`
	Delay      string `json:"delay"`    // none | slow-reader | slow-worker | slow-consumer | jitter
	Consumer   string `json:"consumer"` // fast | slow
	Gunzip     bool   `json:"gunzip,omitempty"` // files are opened with the -z behaviour: gzip content is decompressed, anything else is read as it is
}

type Workload struct {
	Scenario string      `json:"scenario"`
	Inputs   []Input     `json:"inputs"`
	Matcher  MatcherSpec `json:"matcher"`
	Extract  string      `json:"extract"`
	Ignore   []string    `json:"ignore,omitempty"`
	Cfg      Config      `json:"cfg"`
	Seed     uint64      `json:"seed"`
	// by-construction truth (optional): class per (input index, line number-1)
	Classes [][]byte `json:"classes,omitempty"`
}

// ---------------------------------------------------------------- reference

// LineTruth is the sequential, one-line-at-a-time evaluation of one line.
type LineTruth struct {
	Source string
	LineNo uint64
	Text   []byte
	Class  byte // M matched, I ignored (ignore truthy or empty key), U unmatched
	Key    string
	Idx    []int
}

// Ctx is the independent match context (the real one cannot be built outside
// the extractor package).
type Ctx struct {
	Line   string
	Idx    []int
	Names  map[string]int
	Src    string
	LineNo uint64
}

func (s *Ctx) GetMatch(i int) string {
	if i < 0 || 2*i+1 >= len(s.Idx) {
		return ""
	}
	a, b := s.Idx[2*i], s.Idx[2*i+1]
	if a < 0 || b < 0 {
		return ""
	}
	return s.Line[a:b]
}

func (s *Ctx) GetKey(k string) string {
	switch k {
	case "src":
		return s.Src
	case "line":
		return fmt.Sprint(s.LineNo)
	case "@":
		var parts []string
		for i := 1; i < len(s.Idx)/2; i++ {
			parts = append(parts, s.GetMatch(i))
		}
		return strings.Join(parts, "\x00")
	case ".", "#", ".#", "#.":
		// the JSON views, built from this line alone with the repository's own encoder (what the encoder does with
		// one value is C16's subject; here only "the view of THIS line" matters): named members in name order,
		// then the non-empty numbered groups
		var jb minijson.JsonObjectBuilder
		jb.OpenEx(64)
		if k != "#" {
			names := make([]string, 0, len(s.Names))
			for n := range s.Names {
				names = append(names, n)
			}
			sort.Strings(names)
			for _, n := range names {
				jb.WriteInferred(n, s.GetMatch(s.Names[n]))
			}
		}
		if k != "." {
			for i := 0; i < len(s.Idx)/2; i++ {
				if v := s.GetMatch(i); v != "" {
					jb.WriteInferred(strconv.Itoa(i), v)
				}
			}
		}
		jb.Close()
		return jb.String()
	}
	if i, ok := s.Names[k]; ok {
		return s.GetMatch(i)
	}
	return "<NAME>"
}

// RefMatcher is the reference matcher: Go regexp driven directly, the
// reference dissect, or whole-line.
type RefMatcher struct {
	re    *regexp.Regexp
	dis   *ref.Dissect
	names map[string]int
}

func NewRefMatcher(m MatcherSpec) (*RefMatcher, error) {
	switch m.Kind {
	case "regex":
		p := m.Pattern
		if m.IgnoreCase {
			p = "(?i)" + p
		}
		var re *regexp.Regexp
		var err error
		if m.Posix {
			re, err = regexp.CompilePOSIX(p)
		} else {
			re, err = regexp.Compile(p)
		}
		if err != nil {
			return nil, err
		}
		names := map[string]int{}
		for i, n := range re.SubexpNames() {
			if n != "" {
				names[n] = i
			}
		}
		return &RefMatcher{re: re, names: names}, nil
	case "dissect":
		d, err := ref.CompileDissect(m.Pattern, m.IgnoreCase)
		if err != nil {
			return nil, err
		}
		return &RefMatcher{dis: d, names: d.Names()}, nil
	}
	return &RefMatcher{names: map[string]int{}}, nil
}

func (r *RefMatcher) Find(line []byte) []int {
	switch {
	case r.re != nil:
		return r.re.FindSubmatchIndex(line)
	case r.dis != nil:
		return r.dis.Find(line)
	}
	return []int{0, len(line)}
}

// Reference evaluates every line of every input alone, sequentially.
// dir is where file inputs will be materialised ({src} is the path the pipeline reports).
func Reference(w *Workload, dir string) ([]LineTruth, error) {
	rm, err := NewRefMatcher(w.Matcher)
	if err != nil {
		return nil, err
	}
	kb, cerr := funclib.NewKeyBuilder().Compile(w.Extract)
	if cerr != nil {
		return nil, fmt.Errorf("extract does not compile: %v", cerr)
	}
	var ign []*expressions.CompiledKeyBuilder
	for _, e := range w.Ignore {
		ck, cerr := funclib.NewKeyBuilder().Compile(e)
		if cerr != nil {
			return nil, fmt.Errorf("ignore does not compile: %v", cerr)
		}
		ign = append(ign, ck)
	}
	var out []LineTruth
	for ii, in := range w.Inputs {
		srcName := SourceName(w, dir, ii)
		for n, line := range ref.SplitLines(in.Data) {
			lt := LineTruth{Source: in.Name, LineNo: uint64(n + 1), Text: line, Class: 'U'}
			idx := rm.Find(line)
			if len(idx) > 0 {
				ctx := &Ctx{Line: string(line), Idx: idx, Names: rm.names, Src: srcName, LineNo: uint64(n + 1)}
				lt.Idx = idx
				ignored := false
				for _, e := range ign {
					if strings.TrimSpace(e.BuildKey(ctx)) != "" {
						ignored = true
						break
					}
				}
				if ignored {
					lt.Class = 'I'
				} else {
					lt.Key = kb.BuildKey(ctx)
					if lt.Key == "" {
						lt.Class = 'I'
					} else {
						lt.Class = 'M'
					}
				}
			}
			out = append(out, lt)
		}
	}
	return out, nil
}

// ---------------------------------------------------------------- instrumentation

type TapEvent struct {
	Seq    uint64
	Source string
	Start  uint64
	Len    int
}

// MatchRec is one emitted match: the live value (still pointing into rare's
// buffers) plus private copies taken on receipt.
type MatchRec struct {
	Live      extractor.Match
	LineCopy  string
	IdxCopy   []int
	Extracted string
	Seq       uint64 // arrival order at the consumer
	Batch     int    // which match batch it arrived in
}

type Observed struct {
	Matches       []MatchRec
	Read          uint64
	Matched       uint64
	Ignored       uint64
	ReadErrors    int
	Tap           []TapEvent
	ContinuityErr string
	MatchBatches  int
	WorkersUsed   int
	InterleaveSig string
	TimerFlushes  int // batches shorter than the batch size that were not the last batch of their source
	Panic         string
	TimedOut      bool
	HookHits      map[string]int64
	ActiveAtEnd   int
}

// delay matcher ----------------------------------------------------------------

type delayFactory struct {
	inner matchers.Factory
	seed  uint64
	every int
	maxUs int
	insts []*delayMatcher
	mu    sync.Mutex
}

type delayMatcher struct {
	inner matchers.Matcher
	calls atomic.Int64
	f     *delayFactory
	id    int
}

func (f *delayFactory) CreateInstance() matchers.Matcher {
	f.mu.Lock()
	defer f.mu.Unlock()
	m := &delayMatcher{inner: f.inner.CreateInstance(), f: f, id: len(f.insts)}
	f.insts = append(f.insts, m)
	return m
}

func (m *delayMatcher) FindSubmatchIndex(b []byte) []int {
	n := m.calls.Add(1)
	if m.f.every > 0 && n%int64(m.f.every) == 0 {
		r := run.NewRand(m.f.seed, m.id, int(n))
		switch r.Intn(3) {
		case 0:
			runtime.Gosched()
		default:
			time.Sleep(time.Duration(r.Intn(m.f.maxUs)+1) * time.Microsecond)
		}
	}
	return m.inner.FindSubmatchIndex(b)
}

func (m *delayMatcher) SubexpNameTable() map[string]int { return m.inner.SubexpNameTable() }

// scripted reader (reader mode) ----------------------------------------------------

type scriptReader struct {
	data   []byte
	pos    int
	steps  []ReadStep
	i      int
	closed atomic.Bool
}

func (s *scriptReader) Read(p []byte) (int, error) {
	if len(p) == 0 {
		return 0, nil
	}
	var st ReadStep
	if s.i < len(s.steps) {
		st = s.steps[s.i]
		s.i++
	} else {
		if s.pos >= len(s.data) {
			return 0, io.EOF
		}
		st = ReadStep{N: len(p)}
	}
	if st.PauseMs > 0 {
		time.Sleep(time.Duration(st.PauseMs) * time.Millisecond)
	}
	n := st.N
	if n > len(p) {
		n = len(p)
	}
	if n > len(s.data)-s.pos {
		n = len(s.data) - s.pos
	}
	copy(p, s.data[s.pos:s.pos+n])
	s.pos += n
	return n, nil
}

func (s *scriptReader) Close() error { s.closed.Store(true); return nil }

// BuildFactory builds the real matcher factory the way the CLI does.
func BuildFactory(m MatcherSpec) (matchers.Factory, error) {
	switch m.Kind {
	case "regex":
		p := m.Pattern
		if m.IgnoreCase {
			p = "(?i)" + p
		}
		r, err := fastregex.CompileEx(p, m.Posix)
		if err != nil {
			return nil, err
		}
		return matchers.ToFactory(r), nil
	case "dissect":
		d, err := dissect.CompileEx(m.Pattern, m.IgnoreCase)
		if err != nil {
			return nil, err
		}
		return matchers.ToFactory(d), nil
	}
	return &matchers.AlwaysMatch{}, nil
}

// Materialise writes file inputs below dir and returns their paths (which are
// the Source names the pipeline will report) in input order.
func Materialise(w *Workload, dir string) ([]string, error) {
	var paths []string
	for i := range w.Inputs {
		p := filepath.Join(dir, w.Inputs[i].Name)
		if err := os.MkdirAll(filepath.Dir(p), 0o755); err != nil {
			return nil, err
		}
		if w.Inputs[i].Gone {
			paths = append(paths, p)
			continue
		}
		data := w.Inputs[i].Data
		if w.Inputs[i].Gz && w.Cfg.Gunzip {
			// one gzip member, or (every third compressed input) the same bytes as two or three members one after the
			// other, the way `cat a.gz b.gz` and log shippers that append compressed chunks write them
			var zb bytes.Buffer
			cuts := []int{len(data)}
			if (i+len(data))%3 == 0 && len(data) >= 3 {
				cuts = []int{len(data) / 3, len(data) - len(data)/4, len(data)}
			}
			prev := 0
			for _, c := range cuts {
				zw := gzip.NewWriter(&zb)
				zw.Write(data[prev:c])
				zw.Close()
				prev = c
			}
			data = zb.Bytes()
		}
		if err := os.WriteFile(p, data, 0o644); err != nil {
			return nil, err
		}
		paths = append(paths, p)
	}
	return paths, nil
}

// Run executes the workload through the real pipeline. The caller owns dir.
// limit is the termination watchdog (expiry => TimedOut, inconclusive by itself).
func Run(w *Workload, dir string, limit time.Duration) *Observed {
	obs := &Observed{}
	prev := runtime.GOMAXPROCS(0)
	if w.Cfg.GoMaxProcs > 0 {
		runtime.GOMAXPROCS(w.Cfg.GoMaxProcs)
	}
	defer runtime.GOMAXPROCS(prev)
	verifhook.Reset()
	defer verifhook.Reset()

	fac, err := BuildFactory(w.Matcher)
	if err != nil {
		obs.Panic = "matcher does not compile: " + err.Error()
		return obs
	}
	df := &delayFactory{inner: fac, seed: w.Seed}
	var consumerSleep func(n int)
	hookDelay := func(name string, every, maxUs int) {
		var ctr atomic.Int64
		verifhook.Set(name, func() {
			n := ctr.Add(1)
			if every > 0 && n%int64(every) != 0 {
				return
			}
			r := run.NewRand(w.Seed, name, int(n))
			if r.Intn(3) == 0 {
				runtime.Gosched()
				return
			}
			time.Sleep(time.Duration(r.Intn(maxUs)+1) * time.Microsecond)
		})
	}
	switch w.Cfg.Delay {
	case "slow-reader":
		hookDelay("batch.beforeSend", 1, 1500)
		hookDelay("batch.beforeSendLast", 1, 1500)
	case "slow-worker":
		df.every, df.maxUs = 7, 400
		hookDelay("worker.beforeSend", 1, 800)
	case "slow-consumer":
		consumerSleep = func(n int) {
			r := run.NewRand(w.Seed, "consumer", n)
			time.Sleep(time.Duration(r.Intn(1500)+1) * time.Microsecond)
		}
	case "jitter":
		df.every, df.maxUs = 13, 200
		hookDelay("batch.beforeSend", 2, 500)
		hookDelay("batch.beforeSendLast", 1, 500)
		hookDelay("worker.afterRecv", 3, 300)
		hookDelay("worker.beforeSend", 2, 300)
		hookDelay("files.beforeClose", 1, 2000)
		hookDelay("worker.beforeCloseOut", 1, 2000)
		consumerSleep = func(n int) {
			if n%3 == 0 {
				runtime.Gosched()
			}
		}
	}
	if w.Cfg.Consumer == "slow" && consumerSleep == nil {
		consumerSleep = func(n int) {
			r := run.NewRand(w.Seed, "consumer", n)
			time.Sleep(time.Duration(r.Intn(600)+1) * time.Microsecond)
		}
	}

	done := make(chan struct{})
	var fatal atomic.Value
	go func() {
		defer close(done)
		defer func() {
			if r := recover(); r != nil {
				fatal.Store(fmt.Sprintf("panic in consumer goroutine: %v", r))
			}
		}()
		var b *batchers.Batcher
		if w.Cfg.Mode == "reader" {
			in := w.Inputs[0]
			b = batchers.OpenReaderToChan(in.Name, &scriptReader{data: in.Data, steps: in.Steps}, w.Cfg.Batch, w.Cfg.Buffer)
		} else {
			paths, err := Materialise(w, dir)
			if err != nil {
				fatal.Store("materialise: " + err.Error())
				return
			}
			names := make(chan string)
			go func() {
				for _, p := range paths {
					names <- p
				}
				close(names)
			}()
			b = batchers.OpenFilesToChan(names, w.Cfg.Gunzip, w.Cfg.Readers, w.Cfg.Batch, w.Cfg.Buffer)
		}
		// tap between batcher and extractor
		tapOut := make(chan extractor.InputBatch)
		var tapMu sync.Mutex
		go func() {
			last := map[string]uint64{}
			var seq uint64
			// runaway guard: a stream with k newlines has at most k+1 lines. A scanner that stops advancing yields lines
			// forever; the tap then stops forwarding (the reader goroutine stays parked on its send) so that the run
			// ends with a finding instead of exhausting memory.
			maxLines := len(w.Inputs) + 1
			for _, in := range w.Inputs {
				maxLines += bytes.Count(in.Data, []byte("\n")) + 1
			}
			total := 0
			for ib := range b.BatchChan() {
				seq++
				total += len(ib.Batch)
				if total > maxLines {
					tapMu.Lock()
					obs.ContinuityErr = fmt.Sprintf("runaway: batcher delivered more than %d lines although the inputs hold fewer (source %s, batch start %d)", maxLines, ib.Source, ib.BatchStart)
					tapMu.Unlock()
					break
				}
				tapMu.Lock()
				obs.Tap = append(obs.Tap, TapEvent{Seq: seq, Source: ib.Source, Start: ib.BatchStart, Len: len(ib.Batch)})
				want, seen := last[ib.Source]
				if !seen {
					want = 1
				}
				if ib.BatchStart != want && obs.ContinuityErr == "" {
					obs.ContinuityErr = fmt.Sprintf("source %s: batch starts at line %d, expected %d", ib.Source, ib.BatchStart, want)
				}
				if len(ib.Batch) == 0 && obs.ContinuityErr == "" {
					obs.ContinuityErr = fmt.Sprintf("source %s: empty batch at %d", ib.Source, ib.BatchStart)
				}
				last[ib.Source] = ib.BatchStart + uint64(len(ib.Batch))
				tapMu.Unlock()
				tapOut <- ib
			}
			close(tapOut)
		}()
		var ign extractor.IgnoreSet
		if len(w.Ignore) > 0 {
			ign, err = extractor.NewIgnoreExpressions(w.Ignore...)
			if err != nil {
				fatal.Store("ignore does not compile")
				return
			}
		}
		ext, err := extractor.New(tapOut, &extractor.Config{Matcher: df, Extract: w.Extract, Workers: w.Cfg.Workers, Ignore: ign})
		if err != nil {
			fatal.Store("extract does not compile")
			for range tapOut {
			}
			return
		}
		var seq uint64
		nb := 0
		for mb := range ext.ReadChan() {
			nb++
			for _, m := range mb {
				seq++
				obs.Matches = append(obs.Matches, MatchRec{Live: m, LineCopy: strings.Clone(m.Line),
					IdxCopy: append([]int(nil), m.Indices...), Extracted: m.Extracted, Seq: seq, Batch: nb})
			}
			if consumerSleep != nil {
				consumerSleep(nb)
			}
		}
		obs.MatchBatches = nb
		obs.Read, obs.Matched, obs.Ignored = ext.ReadLines(), ext.MatchedLines(), ext.IgnoredLines()
		obs.ReadErrors = b.ReadErrors()
		obs.ActiveAtEnd = b.ActiveFileCount()
		_ = b.StatusString()
	}()
	select {
	case <-done:
	case <-time.After(limit):
		obs.TimedOut = true
		return obs
	}
	if v := fatal.Load(); v != nil {
		obs.Panic = v.(string)
	}
	for _, m := range df.insts {
		if m.calls.Load() > 0 {
			obs.WorkersUsed++
		}
	}
	obs.HookHits = verifhook.Hits()
	// interleaving signature: order of tap events ++ order of (source,line) at the consumer
	var oh run.OrderHash
	perSrcBatches := map[string]int{}
	for _, e := range obs.Tap {
		oh.AddStr(e.Source)
		oh.Add(e.Start)
		perSrcBatches[e.Source]++
	}
	for _, m := range obs.Matches {
		oh.AddStr(m.Live.Source)
		oh.Add(m.Live.LineNumber)
	}
	obs.InterleaveSig = oh.Hex()
	// timer flushes: short batches that are not the last of their source
	seen := map[string]int{}
	for _, e := range obs.Tap {
		seen[e.Source]++
		if e.Len < w.Cfg.Batch && seen[e.Source] < perSrcBatches[e.Source] {
			obs.TimerFlushes++
		}
	}
	return obs
}

// ---------------------------------------------------------------- oracles

type Finding struct {
	Class string
	Msg   string
}

func keyOf(src string, ln uint64) string { return fmt.Sprintf("%s\x00%d", src, ln) }

// SourceName returns the name the pipeline reports for input i.
func SourceName(w *Workload, dir string, i int) string {
	if w.Cfg.Mode == "reader" {
		return w.Inputs[i].Name
	}
	return filepath.Join(dir, w.Inputs[i].Name)
}

// JudgeC01 checks exactly-once, classification and counters.
func JudgeC01(w *Workload, dir string, truth []LineTruth, obs *Observed) []Finding {
	var out []Finding
	add := func(c, f string, a ...any) { out = append(out, Finding{c, fmt.Sprintf(f, a...)}) }
	if obs.Panic != "" {
		add("panic", "%s", obs.Panic)
		return out
	}
	if obs.ContinuityErr != "" {
		add("batch-continuity", "%s", obs.ContinuityErr)
	}
	nameOf := map[string]string{}
	for i := range w.Inputs {
		nameOf[w.Inputs[i].Name] = SourceName(w, dir, i)
	}
	var R, M, I uint64
	want := map[string]string{} // (src,line) -> key for matched lines
	for _, t := range truth {
		R++
		switch t.Class {
		case 'M':
			M++
			want[keyOf(nameOf[t.Source], t.LineNo)] = t.Key
		case 'I':
			I++
		}
	}
	got := map[string]int{}
	for _, m := range obs.Matches {
		k := keyOf(m.Live.Source, m.Live.LineNumber)
		got[k]++
		wk, ok := want[k]
		if !ok {
			add("spurious-match", "emitted a match for %s line %d which the sequential evaluation does not match (key %s)", m.Live.Source, m.Live.LineNumber, run.Q(m.Extracted))
			continue
		}
		if wk != m.Extracted {
			add("wrong-key", "%s line %d: key %s, sequential evaluation gives %s", m.Live.Source, m.Live.LineNumber, run.Q(m.Extracted), run.Q(wk))
		}
	}
	var keys []string
	for k := range want {
		keys = append(keys, k)
	}
	sort.Strings(keys)
	for _, k := range keys {
		if got[k] != 1 {
			p := strings.SplitN(k, "\x00", 2)
			add("not-exactly-once", "matched line %s:%s was emitted %d times", p[0], p[1], got[k])
			if len(out) > 8 {
				break
			}
		}
	}
	if obs.Read != R || obs.Matched != M || obs.Ignored != I {
		add("counters", "ReadLines/MatchedLines/IgnoredLines = %d/%d/%d, true counts %d/%d/%d", obs.Read, obs.Matched, obs.Ignored, R, M, I)
	}
	// tap conservation: every line entered exactly one batch
	var tapLines uint64
	for _, e := range obs.Tap {
		tapLines += uint64(e.Len)
	}
	if tapLines != R {
		add("batched-lines", "batches carried %d lines, inputs have %d", tapLines, R)
	}
	// by-construction classes agree with the sequential reference
	if w.Classes != nil {
		pos := 0
		for i := range w.Inputs {
			for n := range w.Classes[i] {
				if pos >= len(truth) {
					break
				}
				wantC := w.Classes[i][n]
				switch wantC {
				case 'E', 'J':
					wantC = 'I' // empty key counts as ignored; J is ignored by the third rule
				case 'W':
					wantC = 'M' // whitespace-only ignore result is not truthy
				}
				if truth[pos].Class != wantC {
					add("class-by-construction", "input %s line %d constructed as class %c, sequential evaluation says %c: %s",
						w.Inputs[i].Name, n+1, w.Classes[i][n], truth[pos].Class, run.Q(string(truth[pos].Text)))
					return out
				}
				pos++
			}
		}
	}
	gone := 0
	for i := range w.Inputs {
		if w.Inputs[i].Gone {
			gone++
		}
	}
	if obs.ReadErrors != gone {
		add("read-errors", "batcher reports %d read errors; %d of the %d named inputs cannot be opened, the others are readable", obs.ReadErrors, gone, len(w.Inputs))
	}
	return out
}

// JudgeC02 checks source, line number, text and captures of every held match,
// after everything was drained (call after forcing GC).
func JudgeC02(w *Workload, dir string, truth []LineTruth, obs *Observed) []Finding {
	var out []Finding
	add := func(c, f string, a ...any) {
		if len(out) < 10 {
			out = append(out, Finding{c, fmt.Sprintf(f, a...)})
		}
	}
	if obs.Panic != "" {
		add("panic", "%s", obs.Panic)
		return out
	}
	if strings.HasPrefix(obs.ContinuityErr, "runaway") {
		add("bad-position", "%s", obs.ContinuityErr)
	}
	byPos := map[string]*LineTruth{}
	for i := range w.Inputs {
		_ = i
	}
	nameOf := map[string]string{}
	for i := range w.Inputs {
		nameOf[w.Inputs[i].Name] = SourceName(w, dir, i)
	}
	for i := range truth {
		byPos[keyOf(nameOf[truth[i].Source], truth[i].LineNo)] = &truth[i]
	}
	rm, _ := NewRefMatcher(w.Matcher)
	for i := range obs.Matches {
		m := &obs.Matches[i]
		t := byPos[keyOf(m.Live.Source, m.Live.LineNumber)]
		if t == nil {
			add("bad-position", "match reports %s line %d which does not exist", m.Live.Source, m.Live.LineNumber)
			continue
		}
		if m.Live.Line != string(t.Text) {
			if m.LineCopy == string(t.Text) {
				add("line-overwritten", "%s line %d: text was correct on receipt but changed while held: now %s, was %s", m.Live.Source, m.Live.LineNumber, run.Q(m.Live.Line), run.Q(m.LineCopy))
			} else {
				add("wrong-line-text", "%s line %d: Match.Line %s, input line is %s", m.Live.Source, m.Live.LineNumber, run.Q(m.Live.Line), run.Q(string(t.Text)))
			}
			continue
		}
		if !equalInts(m.Live.Indices, m.IdxCopy) {
			add("indices-overwritten", "%s line %d: Indices changed while held: now %v, on receipt %v", m.Live.Source, m.Live.LineNumber, m.Live.Indices, m.IdxCopy)
			continue
		}
		wantIdx := t.Idx
		// captures read through the held indices must equal the reference captures
		ng := len(wantIdx) / 2
		if len(m.Live.Indices)/2 != ng {
			add("group-count", "%s line %d: %d groups, reference matcher has %d", m.Live.Source, m.Live.LineNumber, len(m.Live.Indices)/2, ng)
			continue
		}
		for g := 0; g < ng; g++ {
			gv := capture(m.Live.Line, m.Live.Indices, g)
			rv := capture(string(t.Text), wantIdx, g)
			if gv != rv {
				add("wrong-capture", "%s line %d group %d: %s, leftmost match of the reference matcher gives %s (line %s)", m.Live.Source, m.Live.LineNumber, g, run.Q(gv), run.Q(rv), run.Q(string(t.Text)))
				break
			}
		}
		if t.Class == 'M' && m.Live.Extracted != t.Key {
			add("wrong-extracted", "%s line %d: extracted %s, the expression over the reference captures gives %s (expression %s, line %s)", m.Live.Source, m.Live.LineNumber, run.Q(m.Live.Extracted), run.Q(t.Key), run.Q(w.Extract), run.Q(string(t.Text)))
		}
		for g := 0; g < ng; g++ {
			a, b := m.Live.Indices[2*g], m.Live.Indices[2*g+1]
			if (a < 0) != (b < 0) || a > b || b > len(m.Live.Line) {
				add("bad-offsets", "%s line %d group %d: offsets [%d,%d] for a line of %d bytes", m.Live.Source, m.Live.LineNumber, g, a, b, len(m.Live.Line))
				break
			}
		}
	}
	_ = rm
	// order with one reader and one worker
	if w.Cfg.Workers == 1 && (w.Cfg.Readers == 1 || w.Cfg.Mode == "reader" || len(w.Inputs) == 1) {
		lastLine := map[string]uint64{}
		order := map[string]int{}
		for i := range w.Inputs {
			order[SourceName(w, dir, i)] = i
		}
		lastSrc := -1
		for _, m := range obs.Matches {
			if m.Live.LineNumber <= lastLine[m.Live.Source] {
				add("order", "1 reader x 1 worker: %s line %d emitted after line %d", m.Live.Source, m.Live.LineNumber, lastLine[m.Live.Source])
				break
			}
			lastLine[m.Live.Source] = m.Live.LineNumber
			if w.Cfg.Mode == "files" && w.Cfg.Readers == 1 {
				if order[m.Live.Source] < lastSrc {
					add("order", "1 reader x 1 worker: input %s emitted after a later input", m.Live.Source)
					break
				}
				lastSrc = order[m.Live.Source]
			}
		}
	}
	return out
}

func capture(line string, idx []int, g int) string {
	if 2*g+1 >= len(idx) {
		return ""
	}
	a, b := idx[2*g], idx[2*g+1]
	if a < 0 || b < 0 || a > b || b > len(line) {
		return ""
	}
	return line[a:b]
}

func equalInts(a, b []int) bool {
	if len(a) != len(b) {
		return false
	}
	for i := range a {
		if a[i] != b[i] {
			return false
		}
	}
	return true
}

// CapWriter collects the output of a child process up to Max bytes. A child that writes more than any
// correct run can (a scanner that stopped advancing prints lines forever) is killed through OnOverflow,
// and Overflowed() says so: the caller reports a finding instead of buffering without bound.
type CapWriter struct {
	mu         sync.Mutex
	buf        bytes.Buffer
	Max        int
	over       bool
	OnOverflow func()
}

func (w *CapWriter) Write(p []byte) (int, error) {
	w.mu.Lock()
	defer w.mu.Unlock()
	if w.over {
		return len(p), nil
	}
	if w.buf.Len()+len(p) > w.Max {
		w.over = true
		if w.OnOverflow != nil {
			go w.OnOverflow()
		}
		return len(p), nil
	}
	return w.buf.Write(p)
}

func (w *CapWriter) Overflowed() bool { w.mu.Lock(); defer w.mu.Unlock(); return w.over }
func (w *CapWriter) Bytes() []byte    { w.mu.Lock(); defer w.mu.Unlock(); return w.buf.Bytes() }
func (w *CapWriter) String() string   { w.mu.Lock(); defer w.mu.Unlock(); return w.buf.String() }
func (w *CapWriter) Len() int         { w.mu.Lock(); defer w.mu.Unlock(); return w.buf.Len() }

// OutputBound: no filter/extract run over these inputs can print more than this many bytes.
func OutputBound(w *Workload, maxPathLen int) int {
	total, lines := 0, len(w.Inputs)
	for _, in := range w.Inputs {
		total += len(in.Data)
		lines += bytes.Count(in.Data, []byte("\n"))
	}
	return 4*total + lines*(maxPathLen+96) + 1<<20
}
