package pipe

import (
	"fmt"
	"regexp"
	"runtime"
	"sort"
	"strings"
	"time"

	"verifharness/internal/run"
)

// ---------------------------------------------------------------- generators
//
// Two corpus families:
//   structured: every line carries "<file>:<lineno>:<class>:<payload>", so the
//     class of every line (M matched, E empty key, I ignored, W whitespace-only
//     ignore result = matched, U unmatched) is known by construction;
//   raw: arbitrary bytes, judged against the sequential reference only.

const StructuredRegex = `^([a-z0-9]+):(\d+):([MEIJW]):(.*)$`

// StructuredExtract yields "" for class E and the whole line otherwise.
const StructuredExtract = `{if {neq {3} E} {0}}`

// StructuredIgnore: three rules so that different lines are ignored by different
// rules (a shared, mutable ignore set would be exercised from every worker):
// truthy for class I (rule 0) and class J (rule 2); whitespace-only (not truthy)
// for class W (rule 1).
var StructuredIgnore = []string{`{eq {3} I}`, `{if {eq {3} W} " "}`, `{eq {3} J}`}

var payloadAlphabet = []string{"a", "b", "z", "0", "7", " ", "\t", ":", "\r", "\x00", "\xff", "\xc3", "é", "日", "{", "}", "\\", "\"", ",", "\x1b"}

type GenOpts struct {
	MaxInputs   int
	MaxLines    int
	LongLines   bool // allow 130-400 KiB lines
	ReaderMode  bool
	Pauses      int // number of >250ms pauses to place in reader mode
	ForceConfig *Config
	Gunzip      bool // files mode: one workload in four is read the way -z reads (some inputs gzip-compressed on disk, the others as they are)
}

// applyGunzip: see GenOpts.Gunzip. Plain inputs of 1..9 bytes (shorter than a gzip header) stay plain on purpose.
func applyGunzip(r *run.Rand, w *Workload, o GenOpts) {
	if !o.Gunzip || o.ReaderMode || w.Cfg.Mode != "files" || r.Intn(4) != 0 {
		return
	}
	w.Cfg.Gunzip = true
	if w.Scenario == "raw" && r.Intn(2) == 0 {
		// a plain file shorter than the 10-byte gzip header, anywhere among the others
		tiny := Input{Name: "tiny", Data: r.Bytes(r.Range(1, 9), rawAlphabet)}
		at := r.Intn(len(w.Inputs) + 1)
		w.Inputs = append(w.Inputs[:at:at], append([]Input{tiny}, w.Inputs[at:]...)...)
	}
	for i := range w.Inputs {
		w.Inputs[i].Gz = r.Intn(2) == 0
	}
}

var (
	latBatch   = []int{1, 2, 3, 7, 64, 1000}
	latWorkers = []int{1, 2, 3, 8, 16}
	latReaders = []int{1, 2, 3, 8}
	latBuffer  = []int{1, 2, 34}
	latProcs   = []int{1, 2, 4, 16}
	latDelay   = []string{"none", "slow-reader", "slow-worker", "slow-consumer", "jitter"}
)

func pickI(r *run.Rand, xs []int) int { return xs[r.Intn(len(xs))] }

// GenConfig draws one point of the configuration lattice.
func GenConfig(r *run.Rand, reader bool) Config {
	c := Config{Mode: "files", Batch: pickI(r, latBatch), Workers: pickI(r, latWorkers), Readers: pickI(r, latReaders),
		Buffer: pickI(r, latBuffer), GoMaxProcs: pickI(r, latProcs), Delay: latDelay[r.Intn(len(latDelay))], Consumer: "fast"}
	if r.Intn(4) == 0 {
		c.Consumer = "slow"
	}
	if reader {
		c.Mode = "reader"
		c.Readers = 1
	}
	return c
}

func (c Config) String() string {
	z := ""
	if c.Gunzip {
		z = "/gunzip"
	}
	return fmt.Sprintf("%s/b%d/w%d/r%d/q%d/p%d/%s/%s%s", c.Mode, c.Batch, c.Workers, c.Readers, c.Buffer, c.GoMaxProcs, c.Delay, c.Consumer, z)
}

func genPayload(r *run.Rand, long bool) []byte {
	n := 0
	switch r.Intn(10) {
	case 0:
		n = 0
	case 1, 2, 3, 4, 5:
		n = r.Range(1, 12)
	case 6, 7, 8:
		n = r.Range(12, 80)
	default:
		n = r.Range(80, 600)
	}
	if long {
		n = r.Range(130*1024, 400*1024)
		// long payloads are cheap to build: repeat a short random motif
		motif := genPayload(r, false)
		if len(motif) == 0 {
			motif = []byte("x")
		}
		out := make([]byte, 0, n+len(motif))
		for len(out) < n {
			out = append(out, motif...)
		}
		return out
	}
	var sb []byte
	for len(sb) < n {
		sb = append(sb, payloadAlphabet[r.Intn(len(payloadAlphabet))]...)
	}
	return sb
}

// GenStructured builds a structured workload. Classes are recorded per input.
func GenStructured(r *run.Rand, o GenOpts) *Workload {
	w := &Workload{Scenario: "structured", Matcher: MatcherSpec{Kind: "regex", Pattern: StructuredRegex},
		Extract: StructuredExtract, Ignore: append([]string(nil), StructuredIgnore...), Seed: r.U64()}
	nIn := 1
	if !o.ReaderMode {
		switch r.Intn(6) {
		case 0:
			nIn = r.Range(0, 1)
		case 1, 2, 3:
			nIn = r.Range(2, 6)
		default:
			nIn = r.Range(2, o.MaxInputs)
		}
	}
	longBudget := 0
	if o.LongLines && r.Intn(3) == 0 {
		longBudget = r.Range(1, 3)
	}
	for i := 0; i < nIn; i++ {
		name := fmt.Sprintf("f%d", i)
		if o.ReaderMode {
			name = "<stdin>"
		}
		var nLines int
		switch r.Intn(8) {
		case 0:
			nLines = 0
		case 1, 2, 3:
			nLines = r.Range(1, 30)
		case 4, 5, 6:
			nLines = r.Range(30, 400)
		default:
			nLines = r.Range(400, o.MaxLines)
		}
		if nLines > o.MaxLines {
			nLines = o.MaxLines
		}
		var data []byte
		var classes []byte
		idName := fmt.Sprintf("f%d", i)
		for n := 1; n <= nLines; n++ {
			var line []byte
			var class byte
			switch k := r.Intn(20); {
			case k == 0: // empty line
				class = 'U'
			case k == 1: // a lone CR as content
				line = []byte("\r")
				class = 'U'
			default:
				class = "MMMMMMEEIIJJWWUUUU"[r.Intn(18)]
				long := false
				if longBudget > 0 && r.Intn(nLines) < 3 {
					long = true
					longBudget--
				}
				line = append(line, fmt.Sprintf("%s:%d:%c:", idName, n, class)...)
				line = append(line, genPayload(r, long)...)
				// a payload must not contain LF; everything else is allowed
				for j := range line {
					if line[j] == '\n' {
						line[j] = 'n'
					}
				}
			}
			data = append(data, line...)
			last := n == nLines
			switch {
			case last && r.Intn(3) == 0 && len(line) > 0:
				// no trailing newline; a trailing CR stays content
			case r.Intn(4) == 0:
				data = append(data, '\r', '\n')
			default:
				data = append(data, '\n')
			}
			classes = append(classes, class)
		}
		// the true split decides the classes list length (a payload ending in CR
		// before LF loses that CR; an unterminated empty last line does not exist)
		w.Inputs = append(w.Inputs, Input{Name: name, Data: data})
		w.Classes = append(w.Classes, classes)
	}
	if nIn == 1 && r.Intn(6) == 0 && !o.ReaderMode {
		// a file that is a single newline
		w.Inputs[0].Data = []byte("\n")
		w.Classes[0] = []byte{'U'}
	}
	w.Cfg = GenConfig(r, o.ReaderMode)
	if o.ForceConfig != nil {
		w.Cfg = *o.ForceConfig
	}
	if o.ReaderMode {
		w.Inputs[0].Steps = GenSteps(r, len(w.Inputs[0].Data), o.Pauses)
	}
	applyGunzip(r, w, o)
	return w
}

// GenSteps partitions n bytes into Read() results with stalls and pauses.
func GenSteps(r *run.Rand, n int, pauses int) []ReadStep {
	var steps []ReadStep
	left := n
	style := r.Intn(4)
	for left > 0 {
		var k int
		switch style {
		case 0:
			k = r.Range(1, 7)
		case 1:
			k = r.Range(1, 4096)
		case 2:
			k = r.Range(1, 200000)
		default:
			k = []int{1, 2, 3, 100, 5000, 131072, 131073}[r.Intn(7)]
		}
		if k > left {
			k = left
		}
		if style == 0 && len(steps) > 3000 {
			k = left
		}
		if r.Intn(15) == 0 {
			steps = append(steps, ReadStep{N: 0})
		}
		steps = append(steps, ReadStep{N: k})
		left -= k
	}
	for i := 0; i < pauses && len(steps) > 1; i++ {
		steps[1+r.Intn(len(steps)-1)].PauseMs = 260 + r.Intn(60)
	}
	return steps
}

var rawMatchers = []MatcherSpec{
	{Kind: "regex", Pattern: `\d+`},
	{Kind: "regex", Pattern: `(\w+) (\w+)`},
	{Kind: "regex", Pattern: `^$`},
	{Kind: "regex", Pattern: `(?P<a>a+)|(?P<b>b+)`},
	{Kind: "regex", Pattern: `[^ ]*`},
	{Kind: "regex", Pattern: `.`},
	{Kind: "regex", Pattern: `(a)?(b)?c`},
	{Kind: "regex", Pattern: `\x00`},
	{Kind: "regex", Pattern: `(a|ab)(c|bcd)(d*)`, Posix: true},
	{Kind: "regex", Pattern: `A(b+)`, IgnoreCase: true},
	{Kind: "regex", Pattern: `((a)|(b))+(?P<tail>.*)`},
	{Kind: "dissect", Pattern: `%{a} %{b}`},
	{Kind: "dissect", Pattern: `a%{x}b`},
	{Kind: "dissect", Pattern: `%{?skip}:%{val}`},
	{Kind: "none"},
}

var rawExtracts = []string{`{0}`, `{1}`, `{2}{1}`, `{src}:{line}`, `{@}`, `{a}{b}`, `{len {0}}`, `{1}-{3}`, `x`, `{tail}`, `{val}`, `{prefix {0} a}`}
var rawIgnores = [][]string{nil, nil, {`{eq {0} ""}`}, {`{isint {0}}`}, {`{like {0} a}`}, {`{1}`}, {`{prefix {0} b}`, `{suffix {0} 7}`}, {" "},
	// rules about WHERE a line is (skip the header line, skip one input): the ignore expression sees the line's own position
	{`{eq {line} 1}`}, {`{eq {line} 2}`, `{suffix {src} 1}`}, {`{suffix {line} 7}`, `{like {0} b}`}, {`{suffix {src} 0}`}}
var rawAlphabet = []byte("aabbc 0177AB\n\n\n\r\x00\xff\xc3\xa9:")

// GenRaw builds an unstructured workload judged against the sequential reference.
func GenRaw(r *run.Rand, o GenOpts) *Workload {
	w := &Workload{Scenario: "raw", Matcher: rawMatchers[r.Intn(len(rawMatchers))], Extract: rawExtracts[r.Intn(len(rawExtracts))],
		Ignore: rawIgnores[r.Intn(len(rawIgnores))], Seed: r.U64()}
	if r.Intn(4) == 0 {
		w.Matcher = GenRegex(r)
	}
	nIn := 1
	if !o.ReaderMode {
		nIn = r.Range(1, 5)
	}
	for i := 0; i < nIn; i++ {
		name := fmt.Sprintf("r%d", i)
		if o.ReaderMode {
			name = "<stdin>"
		}
		n := 0
		switch r.Intn(5) {
		case 0:
			n = r.Range(0, 20)
		case 1, 2, 3:
			n = r.Range(20, 3000)
		default:
			n = r.Range(3000, 60000)
		}
		w.Inputs = append(w.Inputs, Input{Name: name, Data: r.Bytes(n, rawAlphabet)})
	}
	w.Cfg = GenConfig(r, o.ReaderMode)
	if o.ForceConfig != nil {
		w.Cfg = *o.ForceConfig
	}
	if o.ReaderMode {
		w.Inputs[0].Steps = GenSteps(r, len(w.Inputs[0].Data), o.Pauses)
	}
	applyGunzip(r, w, o)
	return w
}

// FixClasses trims the by-construction class lists to the true number of lines
// (the generator cannot know that an unterminated empty tail is not a line).
func FixClasses(w *Workload, truth []LineTruth) {
	if w.Classes == nil {
		return
	}
	per := map[string]int{}
	for _, t := range truth {
		per[t.Source]++
	}
	for i := range w.Inputs {
		if n := per[w.Inputs[i].Name]; n < len(w.Classes[i]) {
			w.Classes[i] = w.Classes[i][:n]
		}
	}
}

// ---------------------------------------------------------------- stuck evidence

var goroutineHdr = regexp.MustCompile(`^goroutine \d+ \[([^\]]+)\]:`)
var hexArgs = regexp.MustCompile(`\(0x[0-9a-f, x.{}]*\)|\+0x[0-9a-f]+|goroutine \d+`)

// rareGoroutines extracts, from a full goroutine dump, the normalised stacks of
// goroutines that have a rare/ frame, with their wait state.
func rareGoroutines(dump string) (stacks []string, states []string) {
	for _, g := range strings.Split(dump, "\n\n") {
		if !strings.Contains(g, "\trare/") && !strings.Contains(g, "\nrare/") {
			continue
		}
		m := goroutineHdr.FindStringSubmatch(g)
		if m == nil {
			continue
		}
		st := m[1]
		if i := strings.Index(st, ","); i >= 0 {
			st = st[:i]
		}
		body := g[strings.Index(g, "\n")+1:]
		stacks = append(stacks, st+"\n"+hexArgs.ReplaceAllString(body, ""))
		states = append(states, st)
	}
	sort.Strings(stacks)
	return
}

// StuckEvidence takes two goroutine dumps 2 s apart and reports whether every
// goroutine with a rare/ frame is blocked on a channel or sync primitive with
// identical stacks in both (DESIGN 1.3). The text is the first dump.
func StuckEvidence() (stuck bool, text string) {
	take := func() string {
		buf := make([]byte, 8<<20)
		return string(buf[:runtime.Stack(buf, true)])
	}
	d1 := take()
	time.Sleep(2 * time.Second)
	d2 := take()
	s1, st1 := rareGoroutines(d1)
	s2, _ := rareGoroutines(d2)
	if len(s1) == 0 || len(s1) != len(s2) {
		return false, d1
	}
	for i := range s1 {
		if s1[i] != s2[i] {
			return false, d1
		}
	}
	for _, st := range st1 {
		switch st {
		case "chan send", "chan receive", "select", "semacquire", "sync.Cond.Wait", "sync.Mutex.Lock", "sync.WaitGroup.Wait", "sync.RWMutex.Lock", "sync.RWMutex.RLock", "chan send (nil chan)", "chan receive (nil chan)", "select (no cases)":
		default:
			return false, d1
		}
	}
	return true, strings.Join(s1, "\n\n")
}

// GenAligned builds fixed-width records whose width divides the 128 KiB read
// buffer, so that a newline lands exactly on the last byte of a full buffer
// (the boundary at which a scanner could be tempted to recycle its buffer).
func GenAligned(r *run.Rand, reader bool) *Workload {
	w := &Workload{Scenario: "aligned", Matcher: MatcherSpec{Kind: "regex", Pattern: StructuredRegex},
		Extract: StructuredExtract, Ignore: append([]string(nil), StructuredIgnore...), Seed: r.U64()}
	nIn := 1
	if !reader {
		nIn = r.Range(1, 3)
	}
	for i := 0; i < nIn; i++ {
		width := []int{16, 32, 64, 128, 256, 1024}[r.Intn(6)]
		crlf := r.Intn(4) == 0
		perBuf := 131072 / width
		nLines := perBuf*r.Range(1, 4) + r.Intn(3)*r.Intn(perBuf)
		var data []byte
		var classes []byte
		for n := 1; n <= nLines; n++ {
			class := "MMMMMMEEIIJJWWUUUU"[r.Intn(18)]
			line := []byte(fmt.Sprintf("f%d:%d:%c:", i, n, class))
			body := width - 1
			if crlf {
				body--
			}
			for len(line) < body {
				line = append(line, byte('a'+(n+len(line))%26))
			}
			data = append(data, line...)
			if crlf {
				data = append(data, '\r')
			}
			data = append(data, '\n')
			classes = append(classes, byte(class))
		}
		name := fmt.Sprintf("f%d", i)
		if reader {
			name = "<stdin>"
		}
		w.Inputs = append(w.Inputs, Input{Name: name, Data: data})
		w.Classes = append(w.Classes, classes)
	}
	w.Cfg = GenConfig(r, reader)
	if reader {
		// chunks that exactly fill the scanner's buffer, or are power-of-two fractions of it
		var steps []ReadStep
		left := len(w.Inputs[0].Data)
		k := []int{131072, 65536, 4096, 1 << 20}[r.Intn(4)]
		for left > 0 {
			n := k
			if n > left {
				n = left
			}
			steps = append(steps, ReadStep{N: n})
			left -= n
		}
		w.Inputs[0].Steps = steps
	}
	return w
}

// ---------------------------------------------------------------- generated regular expressions

// GenRegex builds a random regular expression over the vocabulary of the capture corpora
// ("id=f0:12 key=abc val=77 opt=bc ..."): literal words with and without capture groups (a
// pattern that is nothing but literals and groups is the shape a "literal fast path" gets
// wrong), classes, alternations, optional / repeated / lazy / nested / named groups, anchors.
// Whatever it returns compiles with Go's regexp (the reference); names are drawn from the
// names the extract expressions use, so {key} / {val} / {tail} sometimes exist and sometimes not.
func GenRegex(r *run.Rand) MatcherSpec {
	lits := []string{"id=", "key=", "val=", "opt=", "key", "val", "a", "b", "ab", "bc", ":", " ", "=", "f", "0", "1", "KEY=", "x"}
	classes := []string{`\w+`, `\d+`, `\d*`, `\w*`, `[a-c]+`, `[^ ]*`, `.`, `\S+`, `[0-9]`, `\w`}
	names := []string{"key", "val", "file", "n", "all", "tail", "a", "b"}
	used := map[string]bool{}
	var node func(d int) string
	atom := func(d int) string {
		switch r.Intn(10) {
		case 0, 1, 2, 3:
			return regexp.QuoteMeta(lits[r.Intn(len(lits))])
		case 4, 5:
			return classes[r.Intn(len(classes))]
		default:
			if d <= 0 {
				return regexp.QuoteMeta(lits[r.Intn(len(lits))])
			}
			inner := node(d - 1)
			switch r.Intn(6) {
			case 0:
				return "(?:" + inner + ")"
			case 1:
				nm := names[r.Intn(len(names))]
				if used[nm] {
					return "(" + inner + ")"
				}
				used[nm] = true
				return "(?P<" + nm + ">" + inner + ")"
			default:
				return "(" + inner + ")"
			}
		}
	}
	node = func(d int) string {
		n := r.Range(1, 3)
		var sb strings.Builder
		for i := 0; i < n; i++ {
			a := atom(d)
			switch r.Intn(12) {
			case 0:
				a += "?"
			case 1:
				a += "*"
			case 2:
				a += "+"
			case 3:
				a += "??"
			case 4:
				a += "{1,2}"
			}
			sb.WriteString(a)
		}
		if d > 0 && r.Intn(6) == 0 {
			return sb.String() + "|" + node(d-1)
		}
		return sb.String()
	}
	for try := 0; try < 20; try++ {
		for k := range used {
			delete(used, k)
		}
		var p string
		if r.Intn(3) == 0 {
			// pure literals and groups only
			n := r.Range(1, 3)
			for i := 0; i < n; i++ {
				l := regexp.QuoteMeta(lits[r.Intn(len(lits))])
				switch r.Intn(4) {
				case 0:
					p += l
				case 1:
					p += "(" + l + ")"
				case 2:
					nm := names[r.Intn(len(names))]
					if used[nm] {
						p += "(" + l + ")"
					} else {
						used[nm] = true
						p += "(?P<" + nm + ">" + l + ")"
					}
				default:
					p += "((" + l + ")" + regexp.QuoteMeta(lits[r.Intn(len(lits))]) + ")"
				}
			}
		} else {
			p = node(2)
			switch r.Intn(8) {
			case 0:
				p = "^" + p
			case 1:
				p += "$"
			case 2:
				p = `\b` + p
			}
		}
		m := MatcherSpec{Kind: "regex", Pattern: p, IgnoreCase: r.Intn(6) == 0}
		if _, err := NewRefMatcher(m); err == nil {
			return m
		}
	}
	return MatcherSpec{Kind: "regex", Pattern: `(key)=(\w+)`}
}

// ---------------------------------------------------------------- same line numbers, different sources

var sameLineMatchers = []MatcherSpec{
	{Kind: "regex", Pattern: `(?P<verb>[A-Za-z]+) (\d*) ?(?P<who>\S*)`},
	{Kind: "regex", Pattern: `(\w+) (\d+) (\w+)`},
	{Kind: "dissect", Pattern: "%{verb} %{n} %{who}"},
	{Kind: "regex", Pattern: `^(?P<verb>\S+)(?: (?P<n>\d+))?(?: (?P<who>.*))?$`},
}

// views of the whole match (JSON views, the group array, position keys) next to plain groups
var sameLineExtracts = []string{
	"{.}", "{#}", "{.#}", "{#.}", "{@}", "{@join {@} +}", "{@len {@}}:{1}", "{src}#{line}#{1}", "{.}|{0}", "{1}|{#}", "{@select {@} 1}-{@select {@} 0}",
	"{line}:{.#}", "{@map {@} {upper {0}}}", "{verb}/{who}/{.}", "{$ {1} {@} {2}}", "{0}",
}

var sameLineIgnores = [][]string{nil, nil, {"{eq {@select {@} 0} skip}"}, {"{like {.} skipme}"}, {"{eq {1} skip}", "{eq {@len {@}} 99}"}}

// GenSameLines: many small inputs (one to three lines each) of one shape and different content, read with small
// batches by few workers: the same worker evaluates line N of one input and then line N of another, back to back.
// Anything a worker's expression context keeps from one line to the next (a rendering kept per line number, a
// buffer, a lazily built view) meets a different line with the same number here.
func GenSameLines(r *run.Rand) *Workload {
	w := &Workload{Scenario: "samelines", Matcher: sameLineMatchers[r.Intn(len(sameLineMatchers))], Extract: sameLineExtracts[r.Intn(len(sameLineExtracts))],
		Ignore: sameLineIgnores[r.Intn(len(sameLineIgnores))], Seed: r.U64()}
	if w.Matcher.Pattern == `(\w+) (\d+) (\w+)` && strings.Contains(w.Extract, "{verb}") {
		w.Extract = "{1}/{3}/{#}"
	}
	nIn := r.Range(2, 40)
	per := r.Range(1, 3)
	verbs := []string{"GET", "POST", "PUT", "skip", "skipme", "a", "b", "DELETE", "x"}
	for i := 0; i < nIn; i++ {
		var sb strings.Builder
		n := per
		if r.Intn(4) == 0 {
			n = r.Range(1, 3)
		}
		for l := 0; l < n; l++ {
			fmt.Fprintf(&sb, "%s %d w%d_%d\n", verbs[r.Intn(len(verbs))], r.Intn(1000), i, l)
		}
		w.Inputs = append(w.Inputs, Input{Name: fmt.Sprintf("s%d", i), Data: []byte(sb.String())})
	}
	w.Cfg = Config{Mode: "files", Batch: pickI(r, []int{1, 1, 2, 3, 1000}), Workers: pickI(r, []int{1, 1, 2, 3}), Readers: pickI(r, []int{1, 2, 8}),
		Buffer: pickI(r, latBuffer), GoMaxProcs: pickI(r, latProcs), Delay: "none", Consumer: "fast"}
	return w
}

// AddGone names paths at which nothing exists among the inputs of a files-mode workload: one, as many as there are
// reader slots, or one more than that, anywhere in the argument list. The other inputs must still be read completely
// (every line exactly once) and the run must end.
func AddGone(r *run.Rand, w *Workload) int {
	k := []int{1, w.Cfg.Readers, w.Cfg.Readers + 1}[r.Intn(3)]
	for i := 0; i < k; i++ {
		at := r.Intn(len(w.Inputs) + 1)
		if r.Intn(3) == 0 {
			at = 0 // before every readable input
		}
		g := Input{Name: fmt.Sprintf("gone%d", i), Gone: true}
		w.Inputs = append(w.Inputs[:at:at], append([]Input{g}, w.Inputs[at:]...)...)
		if w.Classes != nil {
			w.Classes = append(w.Classes[:at:at], append([][]byte{nil}, w.Classes[at:]...)...)
		}
	}
	return k
}
