// Package reg is the registry of property runners.
package reg

import "verifharness/internal/run"

type Runner func(c *run.Ctx)

var Runners = map[string]Runner{}

func Register(id string, r Runner) { Runners[id] = r }
