// Package deps pins every dependency of rare in go.mod so that property
// packages importing any rare package never need a go.mod update.
package deps

import (
	_ "rare/cmd"
	_ "rare/cmd/helpers"
)
