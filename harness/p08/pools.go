package p08

import "strings"

var long4k = strings.Repeat("abcdefgh", 512)
var long200 = strings.Repeat("0123456789", 20)

// poolAny: the boundary pool of DESIGN §4/C08 (any position of any helper).
var poolAny = []string{"", " ", "0", "-0", "1", "-1", "2", "10", "255", "-1000", "65536",
	"2147483647", "9223372036854775807", "-9223372036854775808", "9223372036854775808",
	"1e308", "-1e-320", "NaN", "Inf", "0x10", "007", "1.", ".5", "abc", long4k, "\xff\xfe\xfd",
	"a\x00b", "%d%s%v", "a b", `a"b`, `"`, "{x}", "{", "}", `a\b`, "\t", "a\nb", "héllo ✓",
	"1\x002\x003", "a,b;c", "-", "+1", "1e-400", "1_000", "٣", "-9223372036854775807", "18446744073709551615"}

var poolInt = []string{"0", "-0", "1", "-1", "2", "3", "10", "255", "-1000", "65536", "2147483647",
	"-2147483648", "4294967296", "9223372036854775807", "-9223372036854775808", "9223372036854775806",
	"-9223372036854775807", "9223372036854775808", "18446744073709551615", "18446744073709551616",
	"007", "+5", "0x10", "1e3", "", " 1", "abc", "4611686018427387904", "-4611686018427387905", "3037000500"}

var poolFloat = []string{"0", "-0", "1", "-1", "0.5", ".5", "1.", "1e308", "-1e308", "1e309", "5e-324",
	"-1e-320", "NaN", "Inf", "-Inf", "+Inf", "infinity", "0x1p-2", "1e400", "9007199254740993", "abc", "",
	"1,5", "999.99999", "1e15", "123456789.123456789", "9223372036854775807", "-9223372036854775808", "1e19", "-1e19"}

// sizes: values allowed where the argument is a size (repeat count, bar length,
// precision, range bound): everything that exercises guards, nothing whose only
// effect is a legitimately huge allocation.
var sizeSafe = []string{"-9223372036854775808", "-1000", "-1", "0", "1", "2", "3", "7", "10", "20"}
var sizeTop = []string{"-9223372036854775808", "-2147483648", "-1000", "-1", "-0", "0", "1", "2", "3", "7", "10", "20", "255", "1000", "65536", "abc", "", "1.5", " 3"}

var poolStr = []string{"", " ", "abc", "a b c", "héllo ✓", "\xff\xfe", "a\x00b", long200, "ABC def", "a\tb",
	`say "hi" there`, "x,y,z", "key=value", "  padded  ", "ǅ ß ı İ", "a\nb\nc", "\x00", "\u2028", "\U0010ffff", "\xed\xa0\x80"}

var poolArr = []string{"", "a", "a\x00b\x00c", "1\x002\x003\x0010", "\x00", "\x00\x00", "a\x00", "\x00a",
	"a\x00\xff\x00", "0\x00-1\x009223372036854775807", strings.Repeat("x\x00", 63) + "x", "a b\x00c d", "abc", "5\x004\x003\x002\x001"}

var poolFmt = []string{"%s", "%d", "%v", "%5s|%-5s", "%05d", "%x", "%q", "%%", "%", "%!", "%[2]s %[1]s", "%[9]s",
	"%[0]s", "%*s", "%.3f", "%.*f", "%s %s %s %s %s %s", "%d%s%v", "%c", "%U", "%t", "%e", "%10.3s", "%+v", "%#v",
	"%T", "%08.3f", "% d", "%1000s", "%[", "%]", "%[-1]s", "%[99999999999999999999]s", "%9999999999d", "%.9999999999f",
	"%[1]*s", "%[1]*[1]s", "%-", "%#", "%0", "%.", "%z", "abc", "", "%s%"}

var poolTimeFmt = []string{"", "cache", "auto", "AUTO", "RFC3339", "rfc3339n", "NGINX", "ANSIC", "UNIX", "RUBY", "RFC822",
	"RFC822Z", "RFC1123", "RFC1123Z", "2006-01-02", "15:04:05", "Jan _2", "abc", "2006-01-02T15:04:05.999999999Z07:00",
	"Monday", "MONTH", "year", "1", "2006 2006", "__2", "002", ".000", ",999", "Z07:00:00", "-07", "MST", "PM", "pm",
	"MONTHNAME", "MNTH", "DAY", "HOUR", "MINUTE", "SECOND", "TIMEZONE", "NTIMEZONE", "NTZ", "WEEKDAY", "WDAY", "01/02 03:04:05PM '06 -0700", "\xff", "2006-01-02 15:04:05.000000000 -0700 MST"}

var poolTz = []string{"", "utc", "UTC", "local", "LOCAL", "America/New_York", "Europe/London", "Asia/Kolkata",
	"Australia/Lord_Howe", "Pacific/Kiritimati", "abc", "../x", "/etc/passwd", "US/Pacific", "GMT+5", "Etc/GMT-14", " ", "\xff", "Antarctica/Troll", "America/St_Johns"}

var poolDate = []string{"2021-02-07T00:14:29Z", "Mon Jan  2 15:04:05 2006", "02/Jan/2006:15:04:05 -0700",
	"Jan 2, 2006 at 3:04pm (MST)", "12 Feb 2006, 19:17", "2006-01-02 15:04:05.000 +0000 UTC", "1/2/06",
	"2014年04月08日", "1332151919", "1384216367111", "1384216367111222", "1384216367111222333", "May 8, 2009 5:57:51 PM", "oct 7, 1970", "7 oct 70",
	"03 February 2013", "2013-Feb-03", "4/8/2014 22:05", "08/04/2014 22:05:00.0000 PM", "2014.03.30", "20140601",
	"Mon, 02 Jan 2006 15:04:05 -0700", "Thu, 4 Jan 2018 17:53:36 +0000", "2006-01-02T15:04:05+0000",
	"2012-08-03 18:31:59.257000000 +0000 UTC m=+0.000000001", "171113 14:14:20", "Tue, 11 Jul 2017 16:28:13 +0200 (CEST)",
	"Mon Aug 10 15:44:11 UTC+0100 2015", "Fri Jul 03 2015 18:04:07 GMT+0100 (GMT Daylight Time)", "September 17, 2012 10:09am",
	"September 17, 2012 at 10:09am PST-08", "2014-04-26 17:24:37.3186369", "2012-08-03 18:31:59.257000000", "2014-04-26 05:24:37 PM",
	"2014-04", "2014", "2014-05-11 08:20:13,787", "3.31.2014", "03.31.2014", "08.21.71", "2014/3/31", "2014/03/31 12:00 AM",
	"14 May 2019 19:11:40.164", "7 September 1970", "1 July 2013", "2013 May 2", "Sep 5 2017", "12/31/9999 23:59:59", "0000-00-00", "0000-01-01T00:00:00Z", "9999-12-31T23:59:59.999999999+14:00",
	"", " ", "now", "live", "delta", "NOW", "abc", "-1", "0", "99999999999999999999", "12:00", "T", "::", "//", "--", "1-1-1", "1/1", "Jan", "Monday", "+0000", "Z", "pm", "年月日"}

var poolUnix = []string{"0", "-1", "1", "1332151919", "1700000000", "2147483647", "-2147483648", "253402300799", "253402300800",
	"9223372036854775807", "-9223372036854775808", "-62135596800", "-62135596801", "abc", "", "1.5", "1e9", "67768036191676799", "67768036191676800", "-67768040609740800", "1711843200", "1729994400"}

var poolAttr = []string{"weekday", "WEEK", "yearweek", "Quarter", "abc", "", "week ", "QUARTER", "yearWeek"}
var poolBkt = []string{"n", "nano", "nanos", "s", "sec", "seconds", "m", "min", "minutes", "h", "hour", "d", "day", "days", "mo", "month", "months", "y", "year", "years", "", "x", "secondsx", "Y", "\xff"}
var poolDur = []string{"1h", "1h3m5s", "-5s", "1.5h", "300ms", "1us", "1µs", "2562047h47m16.854775807s", "2562047h47m16.854775808s",
	"9999999h", "-2562047h47m16.854775808s", "1", "s", "", "1h h", ".5m", "1e3s", "+1m", "0", "  1s", "9223372036854775807ns", "9223372036854775808ns", "0.000000000000000000000000001h", "1.h", "-", "+"}
var poolColor = []string{"red", "Red", "BLUE", "black", "green", "yellow", "magenta", "cyan", "white", "abc", "", "brightred"}
var poolScaler = []string{"linear", "lin", "", "log10", "log", "log2", "LOG2", "abc"}
var poolPath = []string{"/a/b/c.txt", "a/b/", "/", ".", "..", "", "c.tar.gz", "a//b", "/a/../b", ".hidden", "a.", "\xff/\x00", "////", "a/b/c/", "/.", "x.y.z", `C:\dir\f.txt`}
var poolFile = []string{"", "abc", ".", "/", "/nonexistent/x", "..", "a/b", "\x00", "\xff"}
var poolTable = []string{"", "a b\nc d", "a\n", "# c\na b", "a b c", "a  b\n\n\n", "a\x00 b", "k v\nk w", "abc 1\n0 zero\n-1 neg", "\n", " ", "a\tb\r\nc\td\r\n", "//x y\n#z w"}
var poolCmt = []string{"#", "", "//", "a", " "}
var poolDelim = []string{",", " ", "", "::", "\x00", "a", ", ", "\xff", "ab", "\n", "\t"}

var poolJSON = []string{`{"a":1,"b":[1,2,{"c":"d"}],"e":{"f":null},"g":"x y","h":true,"i":-1.5e10}`, `[1,2,3]`, `"str"`, `123`, `null`, `{}`, `[]`, ``, `{`, `{"a":`, `{"a":{"a":{"a":{"a":{"a":1}}}}}`,
	`{"a":"\ud83d\ude00\u00e9\n\t\""}`, `{"a":"\ud83d"}`, `{"a":"\u12"}`, `{"a.b":1,"a":{"b":2},"*":3,"?":4,"#":5,"@x":6,"\\":7}`, `[[1,2],[3,4],[]]`, `[{"n":"x","v":1},{"n":"y","v":2},{"n":"z"}]`,
	`{"a":1e999,"b":-0,"c":0.0000000000000000000000001,"d":123456789012345678901234567890}`, "{\"a\":\"\x00\xff\"}", `{"a":[`, `[,]`, `{"a"}`, `{"":""}`, `  {"a" : 1}  `, `{"a":1}{"a":2}`, "{\"a\":1}\n{\"a\":2}\n", `tru`, `{"a":tru}`, `"unterminated`, `{"a":"b\`}
var poolJPath = []string{"a", "b.#", "b.2.c", "b.#.c", "e.f", `b.#(c=="d")`, `b.#(c%"d*")#`, "@reverse", "@pretty", "@this", "b|@reverse", "..#", "a.b.c.d", "*", "?", "b.-1", `\`, "#(", "#()", "#(a", "b.#(",
	`@pretty:{"indent":"xx"}`, "@", "@valid", "@flatten", "@join", "{a,b}", "[a,b]", `{"x":a}`, "b.9999999999999999999", "", ".", "..", "a.", ".a", "a..b", "#", "#.#", "#.n", `#(n=="y").v`, `#(v>1)#.n`, `#(v!%"x")`, `#(n!="")#`,
	`a\.b`, `@ugly`, `@keys`, `@values`, `@tostr`, `@fromstr`, `@group`, `@flatten:{"deep":true}`, `@pretty:`, `@pretty:{`, `@reverse:`, `@x`, "b.#(#(c))", `#(`, `#(=`, `#(==`, `#(=="`, `#(a=="\`, "b.1e3", "b.0x1", "a|", "|a", "a||b", `{`, `[`, `{a`, `[a`, `{"`, `!a`, `~true`, `#(a==~true)`}

// stdmath pieces
var mathNums = []string{"0", "1", "-1", "2", "2.5", "1e308", "0x10", "0b101", "007", "0.0", "9223372036854775807", "9223372036854775808", "1e-320", ".5", "5.", "63", "64", "65", "-64"}
var mathVars = []string{"[0]", "[1]", "[2]", "[3]", "[5]", "[-1]", "[name]", "[k]", "[]", "x", "name", "k", "[n]", "n", "[ 0 ]", "[0", "0]", "[[0]]", "pi", "e"}
var mathOps = []string{"+", "-", "*", "/", "^", "%", "<<", ">>", "&", "|", "==", "<=", ">=", "<", ">", "&&", "||"}
var mathUn = []string{"-", "!", "abs", "sin", "asin", "cos", "acos", "tan", "atan", "sqrt", "floor", "ceil", "round", "exp", "exp2", "log", "log10", "log2",
	// other spellings of function-like words in front of a group: whatever they mean (a variable, an unknown name), they must not crash
	"ABS", "Sqrt", "LOG10", "Floor", "nosuchfn", "abs2", "é", "x"}

// alphabet of raw / mutated templates
var rawAlphabet = []string{"{", "}", "{", "}", `"`, `\`, " ", " ", "\t", "\n", "a", "b", "x", "0", "1", "9", "-", "@", "$", "!", "%", "[", "]", "(", ")", ".", ",", "é", "\xff", "\x00",
	"{0}", "{1}", "{name}", "{@", "{$", "{!", "{if ", "{sumi ", "{@map ", "{eq ", "{coalesce ", "{substr ", "{@split ", "{select ", "{format ", "{lt ", "{json ", "{time ", `\"`, `\\`, `\{`, `\}`, `\n`, `""`, "{}", "{ }", "}{"}
