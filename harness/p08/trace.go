package p08

import (
	"rare/pkg/expressions"
	"rare/pkg/expressions/funclib"
)

// Diagnosis only (never the primary run): a KeyBuilder whose builtins are the
// real ones wrapped so that, when a panic unwinds, the stack of calls in
// flight (function name, phase, argument values evaluated so far) is left
// behind. The primary run always uses funclib.NewKeyBuilderEx unwrapped; the
// traced builder is consulted after a panic was observed, to name the helper
// and the argument values that crashed it (fingerprints, shrinking).

type frame struct {
	Name  string   // builtin name
	Build bool     // true: inside the KeyBuilderFunction (compile time); false: inside the stage
	Args  []string // last value each argument stage returned while this frame was on top
	Seen  []bool
}

type tracer struct {
	stack []*frame
}

func (t *tracer) push(name string, build bool, vals []string, seen []bool) *frame {
	f := &frame{Name: name, Build: build, Args: vals, Seen: seen}
	t.stack = append(t.stack, f)
	return f
}

func (t *tracer) pop() { t.stack = t.stack[:len(t.stack)-1] }

func (t *tracer) wrap(name string, fn expressions.KeyBuilderFunction) expressions.KeyBuilderFunction {
	return func(args []expressions.KeyBuilderStage) (expressions.KeyBuilderStage, error) {
		n := len(args)
		// the values each argument stage returned last, shared by the construction
		// frame and the evaluation frames of this call site (a helper that
		// pre-evaluates a constant argument never asks for it again)
		vals, seen := make([]string, n), make([]bool, n)
		wargs := make([]expressions.KeyBuilderStage, n)
		for i := range args {
			i, a := i, args[i]
			wargs[i] = func(ctx expressions.KeyBuilderContext) string {
				v := a(ctx)
				vals[i], seen[i] = v, true
				return v
			}
		}
		t.push(name, true, vals, seen)
		st, err := fn(wargs) // a panic here leaves the frame on the stack: that is the point
		t.pop()
		if st == nil {
			return nil, err
		}
		return func(ctx expressions.KeyBuilderContext) string {
			t.push(name, false, vals, seen)
			r := st(ctx)
			t.pop()
			return r
		}, err
	}
}

func newTracedBuilder(opt bool) (*expressions.KeyBuilder, *tracer) {
	t := &tracer{}
	kb := expressions.NewKeyBuilderEx(opt)
	for name, fn := range funclib.Builtins {
		kb.Func(name, t.wrap(name, fn))
	}
	for name, fn := range funclib.Additional {
		kb.Func(name, t.wrap(name, fn))
	}
	return kb, t
}

// innermost returns the innermost call in flight (nil if none).
func (t *tracer) innermost() *frame {
	if len(t.stack) == 0 {
		return nil
	}
	return t.stack[len(t.stack)-1]
}

func (t *tracer) names() []string {
	var out []string
	for _, f := range t.stack {
		out = append(out, f.Name)
	}
	return out
}
