package p08

import (
	"math"
	"sort"
	"strconv"
	"strings"

	"verifharness/internal/run"
)

// ---------------------------------------------------------------- trees

const (
	kLit = iota
	kGroup
	kCall
	kCat
	kRaw
)

type Node struct {
	K     int
	S     string // literal value / group name / raw text
	Fn    string
	Args  []*Node
	Quote bool
}

func lit(s string) *Node               { return &Node{K: kLit, S: s} }
func grp(name string) *Node            { return &Node{K: kGroup, S: name} }
func raw(s string) *Node               { return &Node{K: kRaw, S: s} }
func call(fn string, a ...*Node) *Node { return &Node{K: kCall, Fn: fn, Args: a} }

func needsQuote(s string) bool {
	if s == "" {
		return true
	}
	for _, r := range s {
		switch r {
		case ' ', '\t', '\n', '\r', '"', '\\', '{', '}', '\v', '\f', 0x85, 0xA0, 0x2028, 0x2029, 0x3000, 0x1680:
			return true
		}
		if r >= 0x2000 && r <= 0x200a || r == 0x202f || r == 0x205f {
			return true
		}
	}
	return false
}

func escInto(sb *strings.Builder, s string) {
	for i := 0; i < len(s); i++ {
		switch s[i] {
		case '"', '\\', '{', '}':
			sb.WriteByte('\\')
		}
		sb.WriteByte(s[i])
	}
}

func (n *Node) render(sb *strings.Builder, asArg bool) {
	switch n.K {
	case kLit:
		if !asArg {
			escInto(sb, n.S)
			return
		}
		if n.Quote || needsQuote(n.S) {
			sb.WriteByte('"')
			escInto(sb, n.S)
			sb.WriteByte('"')
		} else {
			sb.WriteString(n.S)
		}
	case kRaw:
		sb.WriteString(n.S)
	case kGroup:
		sb.WriteString("{" + n.S + "}")
	case kCall:
		sb.WriteString("{" + n.Fn)
		for _, a := range n.Args {
			sb.WriteByte(' ')
			a.render(sb, true)
		}
		sb.WriteByte('}')
	case kCat:
		q := n.Quote
		for _, p := range n.Args {
			if p.K == kLit && needsQuote(p.S) {
				q = true
			}
		}
		if asArg && q {
			sb.WriteByte('"')
		}
		for _, p := range n.Args {
			if p.K == kLit {
				escInto(sb, p.S)
			} else {
				p.render(sb, false)
			}
		}
		if asArg && q {
			sb.WriteByte('"')
		}
	}
}

func (n *Node) String() string {
	var sb strings.Builder
	n.render(&sb, false)
	return sb.String()
}

// ---------------------------------------------------------------- output-size bound (resource guard)

// bd is an upper bound on the bytes and on the number of array elements of a value.
type bd struct{ b, e float64 }

type benv struct {
	l0, l1  bd // {0}, {1} inside a sub-expression
	inSub   bool
	ctx     bd       // any context value
	maxSeen *float64 // largest intermediate value / loop output
	work    *float64 // rough number of helper evaluations
}

const boundCap = 24e6 // bytes of any intermediate value
const workCap = 3e6   // helper evaluations per BuildKey

func num(n *Node) (float64, bool) {
	if n.K != kLit {
		return 0, false
	}
	v, err := strconv.ParseInt(strings.TrimSpace(n.S), 10, 64)
	if err != nil {
		return 0, false
	}
	return float64(v), true
}

func (e *benv) see(x bd) bd {
	x.b += 16 // any helper may answer with an error marker instead (<PARSE-ERROR> is the longest)
	if x.e > x.b+1 {
		x.e = x.b + 1
	}
	if x.e < 1 {
		x.e = 1
	}
	if x.b > *e.maxSeen {
		*e.maxSeen = x.b
	}
	return x
}

func bound(n *Node, e *benv) bd {
	*e.work++
	switch n.K {
	case kLit, kRaw:
		// x3: the compiler turns every byte of invalid UTF-8 into U+FFFD
		return e.see(bd{3 * float64(len(n.S)), float64(strings.Count(n.S, "\x00") + 1)})
	case kGroup:
		if e.inSub {
			switch n.S {
			case "0":
				return e.see(e.l0)
			case "1":
				return e.see(e.l1)
			}
			if _, err := strconv.Atoi(n.S); err == nil {
				return bd{0, 1}
			}
		}
		return e.see(e.ctx)
	case kCat:
		var t bd
		for _, p := range n.Args {
			x := bound(p, e)
			t.b += x.b
			t.e += x.e
		}
		return e.see(t)
	}
	// call
	a := n.Args
	arg := func(i int) bd {
		if i < len(a) {
			return bound(a[i], e)
		}
		return bd{0, 1}
	}
	sub := func(i int, l0, l1 bd, times float64) bd {
		if i >= len(a) {
			return bd{0, 1}
		}
		se := *e
		se.inSub, se.l0, se.l1 = true, l0, l1
		w0 := *e.work
		r := bound(a[i], &se)
		*e.work += (*e.work - w0) * math.Max(times-1, 0)
		return r
	}
	sizeArg := func(i int, dflt float64) float64 {
		if i >= len(a) {
			return dflt
		}
		if v, ok := num(a[i]); ok {
			return math.Max(v, 0)
		}
		bound(a[i], e)
		return 20 // sizeSafe maximum (groups {3}/{n}, {len …} of short values are capped by the generator)
	}
	switch n.Fn {
	case "repeat":
		x := arg(0)
		c := sizeArg(1, 0)
		return e.see(bd{x.b * c, x.b*c + 1})
	case "bar":
		arg(0)
		arg(1)
		c := sizeArg(2, 0)
		return e.see(bd{3*c + 3, 1})
	case "round", "percent", "bytesize", "bytesizesi", "downscale":
		arg(0)
		arg(2)
		arg(3)
		return e.see(bd{sizeArg(1, 0) + 800, 1})
	case "@range":
		// trip count is fixed by the generator (<= rangeTripMax); elements are <= 20 bytes
		for i := range a {
			arg(i)
		}
		return e.see(bd{21 * rangeTripMax, rangeTripMax})
	case "@for":
		v := arg(0)
		trips := forTrips(a)
		tot := bd{0, 1}
		for i := 0.0; i < trips; i++ {
			sub(1, v, bd{8, 1}, 1)
			tot.b += v.b + 1
			tot.e += v.e
			v = sub(2, v, bd{8, 1}, 1)
			v.e = v.b + 1
			if v.b > boundCap {
				break
			}
		}
		return e.see(tot)
	case "@map", "@filter":
		arr := arg(0)
		el := bd{arr.b, 1}
		r := sub(1, el, bd{0, 1}, arr.e)
		if n.Fn == "@filter" {
			return e.see(arr)
		}
		return e.see(bd{arr.e * (r.b + 1), arr.e * r.e})
	case "@reduce":
		arr := arg(0)
		memo := bd{arr.b, 1} // an empty initial value means "start from the first element"
		if len(a) > 2 {
			if ini := arg(2); ini.b > memo.b {
				memo = ini
			}
		}
		best := memo
		for i := 0.0; i < arr.e && i < 64; i++ {
			memo = sub(1, memo, bd{arr.b, 1}, 1)
			memo.e = memo.b + 1
			if memo.b > best.b {
				best = memo
			}
			if memo.b > boundCap {
				break
			}
		}
		memo = best // the array may be shorter than its bound: any prefix of the reduction can be the result
		if arr.e > 64 {
			*e.maxSeen = boundCap * 2 // do not reason about long reductions: reject
		}
		return e.see(memo)
	case "@join":
		arr := arg(0)
		d := bd{1, 1}
		if len(a) > 1 {
			d = arg(1)
		}
		return e.see(bd{arr.b + arr.e*(d.b+1), arr.e * d.e})
	case "@split":
		s := arg(0)
		arg(1)
		return e.see(bd{s.b + 1, s.b + 1})
	case "format":
		f := arg(0)
		verbs := 1.0
		if len(a) > 0 && a[0].K == kLit {
			verbs = float64(strings.Count(a[0].S, "%")) + 1
			if strings.Contains(a[0].S, "00000") {
				f.b += 1.1e6
			}
		} else {
			verbs = f.b + 1
		}
		var mx bd
		for i := 1; i < len(a); i++ {
			x := arg(i)
			mx.b = math.Max(mx.b, x.b)
			mx.e = math.Max(mx.e, x.e)
		}
		return e.see(bd{f.b + verbs*(4*mx.b+1100), f.e + verbs*(mx.e+1)})
	case "json":
		var j, p bd
		if len(a) == 1 {
			j, p = e.ctx, arg(0)
		} else {
			j, p = arg(0), arg(1)
			for i := 2; i < len(a); i++ {
				arg(i)
			}
		}
		return e.see(bd{(j.b + 16) * (p.b + 8), (j.b + 16) * (p.b + 8)})
	case "timeformat", "time", "buckettime":
		var t bd
		for i := range a {
			x := arg(i)
			t.b += x.b
		}
		return e.see(bd{6*t.b + 128, 6*t.b + 128})
	case "load":
		arg(0)
		return e.see(bd{1 << 16, 1 << 16})
	}
	var t bd
	for i := range a {
		x := arg(i)
		t.b += x.b
		t.e += x.e
	}
	return e.see(bd{3*t.b + 800, t.e + 8})
}

const rangeTripMax = 64

// forTrips: the trip count the generator built into a @for condition
// ({lt {1} k}, {and {lt {1} k} …}, falsy constant); anything else runs to the
// helper's own iteration cap.
func forTrips(a []*Node) float64 {
	if len(a) != 3 {
		return 0
	}
	c := a[1]
	if c.K == kLit && strings.TrimSpace(c.S) == "" {
		return 0
	}
	if c.K == kCall && c.Fn == "and" && len(c.Args) > 0 {
		c = c.Args[0]
	}
	if c.K == kCall && c.Fn == "lt" && len(c.Args) == 2 && c.Args[0].K == kGroup && c.Args[0].S == "1" {
		if v, ok := num(c.Args[1]); ok {
			return math.Max(v, 0)
		}
	}
	return 1e6 + 1
}

// ---------------------------------------------------------------- signatures

// sigs: argument kinds per helper (several admissible layouts each). A helper
// that is not listed (added to rare later) is still exercised with pool
// arguments at every arity.
//
// kinds: any int float size str arr sub cond fmt formula date tfmt tz unix attr
// bkt dur color scaler path file table cmt delim json jpath cstr; a trailing *
// repeats the kind 0..3 times; a leading c asks for a constant (literal).
var sigs = map[string][]string{
	"coalesce": {"any*"}, "bucket": {"int cint"}, "bucketrange": {"int cint"}, "clamp": {"int cint cint"}, "expbucket": {"int"},
	"isint": {"any"}, "isnum": {"any"},
	"sumi": {"int int int*"}, "subi": {"int int int*"}, "multi": {"int int int*"}, "divi": {"int int int*"}, "modi": {"int int int*"},
	"maxi": {"int int int*"}, "mini": {"int int int*"},
	"sumf": {"float float float*"}, "subf": {"float float float*"}, "multf": {"float float float*"}, "divf": {"float float float*"}, "pow": {"float float float*"},
	"ceil": {"float"}, "floor": {"float"}, "log10": {"float"}, "log2": {"float"}, "ln": {"float"}, "sqrt": {"float"},
	"round": {"float", "float csize"},
	"!":     {"formula"},
	"if":    {"any any", "any any any"}, "switch": {"any any any*"}, "unless": {"any any"},
	"eq": {"any any any*"}, "neq": {"any any any*"}, "not": {"any"},
	"lt": {"float float"}, "gt": {"float float"}, "lte": {"float float"}, "gte": {"float float"},
	"and": {"any*"}, "or": {"any*"},
	"len": {"any"}, "like": {"str str"}, "prefix": {"str str"}, "suffix": {"str str"},
	"format": {"fmt any*"}, "substr": {"str int int"}, "select": {"str int"}, "upper": {"str"}, "lower": {"str"},
	"tab": {"any*"}, "$": {"any*"}, "@": {"any*"},
	"@len": {"arr"}, "@map": {"arr sub"}, "@split": {"str", "str cdelim"}, "@select": {"arr cint"}, "@join": {"arr", "arr cdelim"},
	"@reduce": {"arr sub", "arr sub cany"}, "@filter": {"arr sub"}, "@slice": {"arr cint", "arr cint cint"}, "@in": {"any carr"},
	"@range": {"range"}, "@for": {"any cond sub"},
	"basename": {"path"}, "dirname": {"path"}, "extname": {"path"},
	"load": {"cfile"}, "lookup": {"any ctable", "any ctable ccmt"}, "haskey": {"any ctable", "any ctable ccmt"},
	"hi": {"int"}, "hf": {"float"}, "bytesize": {"int", "int csize"}, "bytesizesi": {"int", "int csize"}, "downscale": {"int", "int csize"},
	"percent": {"float", "float csize", "float csize float", "float csize float float"},
	"json":    {"jpath", "json jpath"}, "csv": {"any*"},
	"time":       {"date", "date ctfmt", "date ctfmt ctz"},
	"timeformat": {"unix", "unix ctfmt", "unix ctfmt ctz"}, "timeattr": {"unix cattr", "unix cattr ctz"},
	"buckettime": {"date cbkt", "date cbkt ctfmt", "date cbkt ctfmt ctz"}, "duration": {"dur"}, "durationformat": {"int"},
	"color": {"ccolor any"}, "repeat": {"cstr size"}, "bar": {"int cint csize", "int cint csize cscaler"},
}

// positions that are sizes (never fed from the general pool), by helper
var sizePos = map[string]map[int]bool{
	"repeat": {1: true}, "bar": {2: true}, "round": {1: true}, "percent": {1: true},
	"bytesize": {1: true}, "bytesizesi": {1: true}, "downscale": {1: true},
}

// ---------------------------------------------------------------- generator

type gen struct {
	c     *run.Ctx
	names []string
	// active known classes
	kForParent, kSubNeg, kRange, kEscape bool
}

func newGen(c *run.Ctx, names []string) *gen {
	sort.Strings(names)
	return &gen{c: c, names: names,
		kForParent: c.KnownActive(fpForParent), kSubNeg: c.KnownActive(fpSubCtxNeg), kRange: c.KnownActive(fpRangeOverflow),
		kEscape: c.KnownActive(fpEscapeAtEnd)}
}

// cb collects the primary context while a tree is generated.
type cb struct {
	slots   [3]*string
	keys    map[string]string
	noAlt   bool // the case must not be evaluated against random contexts
	special bool // literals containing " \ { } may appear inside calls (malformed stream only: such a literal can shift the arguments of a call)
	capTest bool // deliberately runs @for into its iteration cap with tiny values: exempt from the work bound
	flat    bool // top-level single call: bigger sizes and the 4 KiB string are allowed
	loops   int  // nesting of exponential constructs (@for, @reduce)
	forSub  bool // inside a sub-expression of @for
}

var keyNames = []string{"name", "k", "v1", "v2"}

// groupFor returns a node that evaluates to v in the primary context: a
// positional or named group when one is free, else a literal.
func (b *cb) groupFor(r *run.Rand, v string, inSub bool, g *gen) *Node {
	if !inSub {
		start := r.Intn(3)
		for j := 0; j < 3; j++ {
			i := (start + j) % 3
			if b.slots[i] != nil && *b.slots[i] == v {
				return grp(strconv.Itoa(i))
			}
		}
		for j := 0; j < 3; j++ {
			i := (start + j) % 3
			if b.slots[i] == nil {
				b.slots[i] = &v
				return grp(strconv.Itoa(i))
			}
		}
	}
	if inSub && b.forSub && g.kForParent {
		return b.safeLit(v) // key lookups inside @for sub-expressions: input class of an active known finding
	}
	for _, k := range keyNames {
		if cur, ok := b.keys[k]; ok && cur == v {
			return grp(k)
		}
	}
	for _, k := range keyNames {
		if _, ok := b.keys[k]; !ok {
			b.keys[k] = v
			return grp(k)
		}
	}
	return b.safeLit(v)
}

// safeLit: a literal argument. Inside a call, a value containing a quote, a
// backslash or a brace cannot be written so that it stays one argument at every
// nesting depth (escapes inside braces are undocumented), so outside the
// malformed stream such values only travel through groups.
func (b *cb) safeLit(v string) *Node {
	if !b.special && strings.ContainsAny(v, "\"\\{}") {
		return lit("abc")
	}
	return lit(v)
}

func pick(r *run.Rand, p []string) string { return p[r.Intn(len(p))] }

func (g *gen) poolFor(kind string, b *cb) []string {
	switch kind {
	case "int":
		return poolInt
	case "float":
		return poolFloat
	case "size":
		if b.flat {
			return sizeTop
		}
		return sizeSafe
	case "str", "cstr":
		return poolStr
	case "arr":
		return poolArr
	case "fmt":
		return poolFmt
	case "date":
		return poolDate
	case "tfmt":
		return poolTimeFmt
	case "tz":
		return poolTz
	case "unix":
		return poolUnix
	case "attr":
		return poolAttr
	case "bkt":
		return poolBkt
	case "dur":
		return poolDur
	case "color":
		return poolColor
	case "scaler":
		return poolScaler
	case "path":
		return poolPath
	case "file":
		return poolFile
	case "table":
		return poolTable
	case "cmt":
		return poolCmt
	case "delim":
		return poolDelim
	case "json":
		return poolJSON
	case "jpath":
		return poolJPath
	}
	return poolAny
}

// value picks a pool value of a kind (tame: no 4 KiB string outside flat calls).
func (g *gen) value(r *run.Rand, kind string, b *cb) string {
	p := g.poolFor(kind, b)
	for k := 0; k < 8; k++ {
		v := pick(r, p)
		if !b.flat && len(v) > 512 {
			continue
		}
		return v
	}
	return "abc"
}

// arg builds one argument of the given kind.
func (g *gen) arg(r *run.Rand, kind string, depth int, inSub bool, b *cb) *Node {
	constant := false
	if strings.HasPrefix(kind, "c") && kind != "cond" && kind != "color" && kind != "cmt" {
		constant = true
		kind = kind[1:]
	}
	switch kind {
	case "sub":
		return g.subExpr(r, depth, b)
	case "cond":
		return g.forCond(r, depth, b)
	case "formula":
		return raw(g.formula(r, 3))
	case "range":
		return nil // handled by the caller
	}
	if kind == "size" {
		// sizes: literal, or the size-safe group {3} / {n} (never inside sub-expressions, where {3} is empty)
		v := g.value(r, "size", b)
		if !inSub && !constant && r.Intn(4) == 0 {
			if r.Bool() {
				return grp("3")
			}
			return grp("n")
		}
		return lit(v)
	}
	if constant && r.Intn(10) != 0 {
		n := b.safeLit(g.value(r, kind, b))
		n.Quote = r.Intn(3) == 0
		return n
	}
	// computed sub-tree of roughly the right type
	if depth > 0 && r.Intn(3) == 0 {
		return g.typed(r, kind, depth-1, inSub, b)
	}
	if inSub && r.Intn(2) == 0 {
		return g.subRef(r, b)
	}
	v := g.value(r, kind, b)
	special := strings.ContainsAny(v, "\"\\{}")
	if r.Intn(100) < 45 && !(special && (!b.special || r.Intn(4) != 0)) {
		n := lit(v)
		n.Quote = r.Intn(4) == 0
		return n
	}
	return b.groupFor(r, v, inSub, g)
}

// subRef: a reference available inside a sub-expression.
func (g *gen) subRef(r *run.Rand, b *cb) *Node {
	switch x := r.Intn(40); {
	case x < 22:
		return grp("0")
	case x < 32:
		return grp("1")
	case x < 34:
		return grp("2")
	case x < 35:
		return grp("5")
	case x < 36:
		if g.kSubNeg {
			return grp("0")
		}
		return grp(pick(r, []string{"-1", "-2", "-9223372036854775808"}))
	case x < 37:
		if g.kSubNeg {
			return grp("1")
		}
		return call("time", lit(pick(r, []string{"live", "delta", "LIVE"})))
	default:
		if b.forSub && g.kForParent {
			return grp("0")
		}
		return grp(pick(r, []string{"name", "k", "missing", "n", "src"}))
	}
}

var typedFns = map[string][]string{
	"int":   {"sumi", "subi", "multi", "len", "@len", "maxi", "mini", "ceil", "floor", "divi", "modi", "bucket", "duration", "time"},
	"float": {"sumf", "divf", "multf", "pow", "sqrt", "log10", "!", "round"},
	"unix":  {"time", "sumi", "multi"},
	"str":   {"upper", "lower", "substr", "select", "format", "coalesce", "if", "tab", "prefix", "like", "basename", "json", "timeformat", "hi", "hf", "csv", "color", "repeat", "bar", "percent", "bytesize", "downscale", "durationformat", "switch", "unless", "lookup"},
	"arr":   {"@", "$", "@split", "@map", "@filter", "@slice", "@range", "@for", "@reduce", "@join"},
	"date":  {"timeformat", "substr", "format"},
}

// typed builds a call whose result has roughly the requested type.
func (g *gen) typed(r *run.Rand, kind string, depth int, inSub bool, b *cb) *Node {
	fns, ok := typedFns[kind]
	if !ok || r.Intn(4) == 0 {
		return g.callNode(r, pick(r, g.names), depth, inSub, b)
	}
	return g.callNode(r, pick(r, fns), depth, inSub, b)
}

// callNode builds a well-typed call of fn.
func (g *gen) callNode(r *run.Rand, fn string, depth int, inSub bool, b *cb) *Node {
	if (fn == "@for" || fn == "@reduce") && b.loops > 0 {
		fn = "@map" // exponential constructs do not nest
	}
	sg, ok := sigs[fn]
	if !ok {
		n := call(fn)
		for k := r.Intn(4); k > 0; k-- {
			n.Args = append(n.Args, g.arg(r, "any", depth, inSub, b))
		}
		return n
	}
	if fn == "@range" {
		return g.rangeCall(r, b, inSub)
	}
	layout := strings.Fields(pick(r, sg))
	n := call(fn)
	loop := fn == "@for" || fn == "@reduce"
	if loop {
		b.loops++
	}
	wasFor := b.forSub
	for _, kd := range layout {
		reps := 1
		if strings.HasSuffix(kd, "*") {
			kd = kd[:len(kd)-1]
			reps = r.Intn(4)
		}
		for ; reps > 0; reps-- {
			if fn == "@for" && (kd == "cond" || kd == "sub") {
				b.forSub = true
			}
			n.Args = append(n.Args, g.arg(r, kd, depth, inSub, b))
			b.forSub = wasFor
		}
	}
	if loop {
		b.loops--
	}
	// now and then: one argument too many / too few
	switch r.Intn(40) {
	case 0:
		n.Args = append(n.Args, g.arg(r, "any", 0, inSub, b))
	case 1:
		if len(n.Args) > 0 && fn != "@for" && fn != "@range" {
			n.Args = n.Args[:len(n.Args)-1]
		}
	}
	return n
}

// subExpr: the mapper / reducer / condition body of an array helper.
func (g *gen) subExpr(r *run.Rand, depth int, b *cb) *Node {
	switch r.Intn(6) {
	case 0:
		return g.subRef(r, b)
	case 1:
		return &Node{K: kCat, Args: []*Node{g.subRef(r, b), lit(pick(r, []string{"-", "", "x", " "})), g.subRef(r, b)}, Quote: r.Bool()}
	}
	if depth <= 0 {
		return call(pick(r, []string{"upper", "len", "isint", "not"}), g.subRef(r, b))
	}
	return g.callNode(r, pick(r, g.names), depth-1, true, b)
}

// forCond: a @for condition with a trip count the generator controls.
func (g *gen) forCond(r *run.Rand, depth int, b *cb) *Node {
	maxK := 6
	if b.flat {
		maxK = 40
	}
	k := lit(strconv.Itoa(r.Intn(maxK+1) - 1))
	base := call("lt", grp("1"), k)
	switch r.Intn(10) {
	case 0:
		return lit(pick(r, []string{"", " ", "  "}))
	case 1, 2, 3:
		return call("and", base, g.subExpr(r, depth, b))
	}
	return base
}

// rangeCall: {@range …} with a bounded trip count, at any magnitude.
func (g *gen) rangeCall(r *run.Rand, b *cb, inSub bool) *Node {
	maxTrip := 8
	if b.flat {
		maxTrip = rangeTripMax
	}
	trips := int64(r.Intn(maxTrip + 1))
	incrs := []int64{1, 1, 1, 2, 3, -1, -2, 7, 0, math.MaxInt64, math.MinInt64, 1000, 4611686018427387904}
	starts := []int64{0, 0, 1, -1, 5, -1000, 65536, math.MaxInt64, math.MinInt64, math.MaxInt64 - 7, math.MinInt64 + 7, 4611686018427387904}
	if !b.flat {
		incrs = incrs[:8]
		starts = starts[:7]
	}
	incr := incrs[r.Intn(len(incrs))]
	start := starts[r.Intn(len(starts))]
	// stop = start + incr*trips, saturating
	stop := start
	for i := int64(0); i < trips; i++ {
		nx := stop + incr
		if (incr > 0 && nx < stop) || (incr < 0 && nx > stop) {
			if incr > 0 {
				stop = math.MaxInt64
			} else {
				stop = math.MinInt64
			}
			break
		}
		stop = nx
	}
	if r.Intn(6) == 0 { // stop strictly between two steps
		if incr > 1 && stop > math.MinInt64+1 {
			stop--
		} else if incr < -1 && stop < math.MaxInt64-1 {
			stop++
		}
	}
	if r.Intn(12) == 0 { // wrong direction: <VALUE>
		start, stop = stop, start
		if incr == 0 || tripsOf(start, stop, incr) > int64(maxTrip) {
			start, stop = stop, start
		}
	}
	// the loop `for i := start; i < stop; i += incr` wraps around when some i < stop has i+incr > MaxInt64
	unsafe := (incr > 0 && stop > math.MaxInt64-incr) || (incr < 0 && stop < math.MinInt64-incr)
	if unsafe && start != stop && incr != 0 && !((incr > 0 && start > stop) || (incr < 0 && start < stop)) {
		// input class of the @range wrap-around finding: unbounded loop, kills the process, so it is never run
		// in-process while the finding is listed; when it is not listed the class is generated (a regression would
		// be a contained, attributed child death)
		if g.kRange || tripsOf(start, stop, incr) > int64(maxTrip) {
			start, stop, incr = 0, trips, 1
		} else {
			g.c.Count("range_near_overflow_cases", 1)
		}
	}
	if tripsOf(start, stop, incr) > int64(maxTrip) {
		start, stop, incr = 0, trips, 1
	}
	mk := func(v int64) *Node {
		s := strconv.FormatInt(v, 10)
		if !inSub && r.Intn(3) == 0 {
			b.noAlt = true
			return b.groupFor(r, s, false, g)
		}
		return lit(s)
	}
	n := call("@range")
	switch {
	case start == 0 && incr == 1 && r.Intn(2) == 0:
		n.Args = []*Node{mk(stop)}
	case incr == 1 && r.Intn(2) == 0:
		n.Args = []*Node{mk(start), mk(stop)}
	default:
		n.Args = []*Node{mk(start), mk(stop), mk(incr)}
	}
	if r.Intn(15) == 0 { // a non-numeric / empty bound: <BAD-TYPE>; every other bound is a small literal
		x := lit(pick(r, []string{"abc", "", "1.5", "0x10", " 1", "1e3", "9223372036854775808", "-9223372036854775809", "٣"}))
		switch r.Intn(4) {
		case 0:
			n.Args = []*Node{x}
		case 1:
			n.Args = []*Node{lit("0"), x}
		case 2:
			n.Args = []*Node{x, lit("5")}
		default:
			n.Args = []*Node{lit("0"), lit("5"), x}
		}
	}
	return n
}

// rangesBounded re-derives, from the finished tree and the contexts it will
// really be evaluated against, that every {@range …} is either rejected by the
// helper's own argument checks or has a small trip count (second line of the
// resource guard, independent of how the arguments were built).
func (g *gen) rangesBounded(n *Node, b *cb, ctxs []Ctx) bool {
	if n.K == kCall && n.Fn == "@range" && len(n.Args) >= 1 && len(n.Args) <= 3 {
		usesGroup := false
		for _, a := range n.Args {
			if a.K == kGroup {
				usesGroup = true
			} else if a.K != kLit {
				return false
			}
		}
		if usesGroup && !b.noAlt {
			return false
		}
		for _, cx := range ctxs {
			a := cx.build()
			vals := make([]string, len(n.Args))
			for i, x := range n.Args {
				if x.K == kLit {
					vals[i] = x.S
				} else if idx, err := strconv.Atoi(x.S); err == nil {
					vals[i] = a.GetMatch(idx)
				} else {
					vals[i] = a.GetKey(x.S)
				}
			}
			var st, sp, in string = "0", "", "1"
			switch len(vals) {
			case 1:
				sp = vals[0]
			case 2:
				st, sp = vals[0], vals[1]
			case 3:
				st, sp, in = vals[0], vals[1], vals[2]
			}
			start, e1 := strconv.ParseInt(st, 10, 64)
			stop, e2 := strconv.ParseInt(sp, 10, 64)
			incr, e3 := strconv.ParseInt(in, 10, 64)
			if e1 != nil || e2 != nil || e3 != nil || incr == 0 {
				continue // <BAD-TYPE> / <VALUE> before any loop
			}
			if tripsOf(start, stop, incr) > rangeTripMax+1 {
				return false
			}
			wraps := (incr > 0 && start < stop && stop > math.MaxInt64-incr) || (incr < 0 && start > stop && stop < math.MinInt64-incr)
			if wraps && g.kRange {
				return false
			}
		}
	}
	for _, a := range n.Args {
		if !g.rangesBounded(a, b, ctxs) {
			return false
		}
	}
	return true
}

// tripsOf: iterations of the intended loop (no wrap-around), saturating.
func tripsOf(start, stop, incr int64) int64 {
	if incr == 0 {
		return 0
	}
	var span, step float64
	if incr > 0 {
		if start >= stop {
			return 0
		}
		span, step = float64(stop)-float64(start), float64(incr)
	} else {
		if start <= stop {
			return 0
		}
		span, step = float64(start)-float64(stop), -float64(incr)
	}
	t := math.Ceil(span / step)
	if t > 1e15 {
		return math.MaxInt64
	}
	return int64(t) + 1 // +1: float rounding margin
}

// formula: a stdmath expression, mostly well-formed.
func (g *gen) formula(r *run.Rand, depth int) string {
	var term func(d int) string
	var expr func(d int) string
	term = func(d int) string {
		switch x := r.Intn(20); {
		case x < 7:
			return pick(r, mathNums)
		case x < 12:
			return pick(r, mathVars)
		case x < 14 && d > 0:
			u := pick(r, mathUn)
			if len(u) == 1 {
				return u + term(d-1)
			}
			return u + "(" + expr(d-1) + ")"
		case x < 17 && d > 0:
			return "(" + expr(d-1) + ")"
		case x < 18 && d > 0:
			return "(" + expr(d-1) + ")(" + expr(d-1) + ")"
		}
		return pick(r, mathNums)
	}
	expr = func(d int) string {
		s := term(d)
		for k := r.Intn(4); k > 0; k-- {
			sp := pick(r, []string{"", " ", " "})
			s += sp + pick(r, mathOps) + sp + term(d)
		}
		return s
	}
	f := expr(depth)
	// malformed variants
	switch r.Intn(14) {
	case 0:
		f += " " + pick(r, mathOps)
	case 1:
		if !g.c.KnownActive(fpMathDangling) || r.Intn(4) == 0 {
			f += " " + pick(r, mathOps) + " " + pick(r, []string{"-", "!", "abs", "-(", "!("})
		}
	case 2:
		f = pick(r, mathOps) + " " + f
	case 3:
		f = "(" + f
	case 4:
		f += ")"
	case 5:
		f = strings.Replace(f, " ", pick(r, []string{" ( ", " ) ", " () ", " [ ", " ] ", " 1.2.3 ", " 0x ", " 1e ", " ** ", " =  ", " ! "}), 1)
	case 6:
		f = pick(r, []string{"", " ", "()", "(())", "-", "!", "abs", "abs()", "[", "]", "1 2", "1 (2", "a b", "1..2", "--1", "- -1", "!!1", "(1)(2)(3)", "1(2)", "abs 1", "sin(cos(tan(1)))", "2^3^2", "1 <<< 2", "1 <= = 2", "1 &&& 2", "5 % 0", "5 % [0]", "1 << 64", "1 << -1", "1 >> 1e30", "1e308 % 7", "NaN % 1", "[0] & [1]", "1 | 1e300"})
	}
	return f
}

// ---------------------------------------------------------------- contexts

func (g *gen) contexts(r *run.Rand, b *cb, nRandom int) []Ctx {
	// primary: what the tree asked for; unfilled slots get pool values
	el := make([]string, 4)
	for i := 0; i < 3; i++ {
		if b.slots[i] != nil {
			el[i] = *b.slots[i]
		} else {
			el[i] = g.value(r, "any", b)
		}
	}
	szPool := sizeSafe
	el[3] = pick(r, szPool)
	keys := map[string]string{"n": pick(r, szPool), "src": "file.log", "line": "42"}
	for k, v := range b.keys {
		keys[k] = v
	}
	for _, k := range keyNames {
		if _, ok := keys[k]; !ok && r.Bool() {
			keys[k] = g.value(r, "any", b)
		}
	}
	out := []Ctx{mkCtx(el, keys)}
	if b.noAlt {
		out = append(out, mkCtx(nil, nil))
		return out
	}
	// all-empty: missing groups
	out = append(out, mkCtx(nil, nil))
	for j := 0; j < nRandom; j++ {
		e2 := make([]string, 4)
		pl := poolAny
		switch r.Intn(4) {
		case 0:
			pl = poolInt
		case 1:
			pl = poolFloat
		}
		for i := 0; i < 3; i++ {
			e2[i] = pick(r, pl)
			if !b.flat && len(e2[i]) > 512 {
				e2[i] = "abc"
			}
		}
		e2[3] = pick(r, szPool)
		k2 := map[string]string{"n": pick(r, szPool)}
		for _, k := range keyNames {
			if r.Intn(3) > 0 {
				k2[k] = pick(r, pl)
				if !b.flat && len(k2[k]) > 512 {
					k2[k] = "1"
				}
			}
		}
		if r.Intn(5) == 0 {
			e2 = e2[:r.Intn(4)] // fewer groups than the template uses
		}
		out = append(out, mkCtx(e2, k2))
	}
	return out
}

func ctxBound(ctxs []Ctx) bd {
	var m bd
	m.e = 1
	for _, x := range ctxs {
		a := x.build()
		for _, v := range a.Elements {
			m.b = math.Max(m.b, float64(len(v)))
			m.e = math.Max(m.e, float64(strings.Count(v, "\x00")+1))
		}
		for _, v := range a.Keys {
			m.b = math.Max(m.b, float64(len(v)))
			m.e = math.Max(m.e, float64(strings.Count(v, "\x00")+1))
		}
	}
	return m
}

// admissible applies the resource guard to a generated tree.
func admissible(root *Node, ctxs []Ctx) bool {
	ok, _ := admissibleB(root, ctxs)
	return ok
}

// admissibleB also returns the bound of the whole template's output.
func admissibleB(root *Node, ctxs []Ctx) (bool, float64) {
	var mx, work float64
	e := &benv{ctx: ctxBound(ctxs), maxSeen: &mx, work: &work}
	r := bound(root, e)
	return mx <= boundCap && work <= workCap, r.b
}

// sanitizeSizes is the safety net of the resource guard: whatever path built
// the tree, an argument in a size position is a small literal, a non-numeric
// literal or one of the size-safe groups {3} / {n}.
func sanitizeSizes(n *Node, flat, inSub bool) {
	if n.K == kCall {
		for i, a := range n.Args {
			if !sizePos[n.Fn][i] {
				continue
			}
			ok := false
			switch a.K {
			case kLit:
				lim := 20.0
				if flat {
					lim = 65536
				}
				if v, isNum := num(a); !isNum || v <= lim {
					_, err := strconv.ParseFloat(strings.TrimSpace(a.S), 64)
					ok = isNum || err != nil // integers within the limit, or text no parser accepts as a number
				}
			case kGroup:
				ok = !inSub && (a.S == "3" || a.S == "n")
			}
			if !ok {
				n.Args[i] = lit("2")
			}
		}
	}
	for i, a := range n.Args {
		sub := inSub
		if n.K == kCall && i > 0 {
			switch n.Fn {
			case "@map", "@filter", "@reduce", "@for":
				sub = true
			}
		}
		sanitizeSizes(a, flat, sub)
	}
}

func (g *gen) finish(r *run.Rand, kind string, root *Node, b *cb, nRandom int) *Case {
	sanitizeSizes(root, b.flat, false)
	ctxs := g.contexts(r, b, nRandom)
	okB, rootB := admissibleB(root, ctxs)
	if !b.capTest && !okB {
		return nil
	}
	if !g.rangesBounded(root, b, ctxs) {
		g.c.Count("gen_rejected_unbounded_range", 1)
		return nil
	}
	cs := newCase(kind, root.String(), ctxs...)
	cs.Uni = r.Bool()
	if !b.capTest {
		cs.maxOut = rootB
	}
	return cs
}

// ---------------------------------------------------------------- stream 1: calls

// callsCase: one helper, arity 0..5, arguments from the boundary pool (as
// constants and through groups), or a well-typed call with boundary values.
func (g *gen) callsCase(r *run.Rand, i int) *Case {
	fn := g.names[i%len(g.names)]
	g.c.SetAdd("helpers_called", fn)
	b := &cb{keys: map[string]string{}, flat: true}
	var root *Node
	if r.Intn(2) == 0 || sigs[fn] == nil {
		// pool arguments at every arity
		ar := r.Intn(6)
		n := call(fn)
		switch {
		case fn == "@range":
			n = g.rangeCall(r, b, false)
			if r.Intn(4) == 0 { // other arities: <ARGN>
				n.Args = nil
				for k := pick(r, []string{"0", "4", "5"}); len(n.Args) < int(k[0]-'0'); {
					n.Args = append(n.Args, lit(pick(r, sizeSafe)))
				}
			}
		case fn == "@for" && ar == 3:
			b.forSub = true
			n.Args = []*Node{g.poolArg(r, b, false), g.forCond(r, 1, b), g.poolArg(r, b, true)}
			b.forSub = false
			if r.Intn(150) == 0 {
				// the helper's own iteration cap: a constant truthy condition with a short value
				n.Args = []*Node{lit("a"), lit(pick(r, []string{"1", "abc", "{1}"})), lit("b")}
				b.capTest = true
			}
		default:
			for k := 0; k < ar; k++ {
				if sizePos[fn][k] {
					n.Args = append(n.Args, g.arg(r, "size", 0, false, b))
					continue
				}
				n.Args = append(n.Args, g.poolArg(r, b, false))
			}
		}
		root = n
	} else {
		root = g.callNode(r, fn, 1, false, b)
	}
	if r.Intn(8) == 0 { // surrounded by literal text / another group
		root = &Node{K: kCat, Args: []*Node{lit(pick(r, []string{"pre ", "x", "é{", "a\\b "})), root, grp(pick(r, []string{"0", "name", "9", "-1"}))}}
	}
	return g.finish(r, "calls", root, b, g.c.N(2, 3))
}

// poolArg: a boundary-pool value as a constant or through a group.
func (g *gen) poolArg(r *run.Rand, b *cb, inSub bool) *Node {
	v := pick(r, poolAny)
	if inSub && r.Intn(2) == 0 {
		return g.subRef(r, b)
	}
	special := strings.ContainsAny(v, "\"\\{}")
	if r.Bool() && !special {
		n := lit(v)
		n.Quote = r.Intn(4) == 0
		return n
	}
	return b.groupFor(r, v, inSub, g)
}

// ---------------------------------------------------------------- stream 2: nested trees

func (g *gen) treeCase(r *run.Rand, i int) *Case {
	b := &cb{keys: map[string]string{}}
	depth := 2 + r.Intn(3) // 2..4
	var parts []*Node
	for k := 1 + r.Intn(3); k > 0; k-- {
		switch r.Intn(8) {
		case 0:
			parts = append(parts, lit(pick(r, []string{" ", "text ", "-", "a\\b", "{", "}", "\"q\" ", "é"})))
		case 1:
			parts = append(parts, grp(pick(r, []string{"0", "1", "2", "3", "name", "k", "missing", "-1", "99"})))
		default:
			fn := pick(r, g.names)
			if r.Intn(3) == 0 { // favour the helpers that take sub-expressions
				fn = pick(r, []string{"@map", "@filter", "@reduce", "@for", "@map", "@filter"})
			}
			parts = append(parts, g.callNode(r, fn, depth, false, b))
		}
	}
	root := parts[0]
	if len(parts) > 1 {
		root = &Node{K: kCat, Args: parts}
	}
	return g.finish(r, "tree", root, b, g.c.N(1, 2))
}

// ---------------------------------------------------------------- stream 3: odd input lines

// dataCase: a fixed extraction-style template against many odd "lines".
func (g *gen) dataCase(r *run.Rand, i int) *Case {
	tmpls := []string{
		`{time {0}}`, `{time {0} auto}`, `{time {0} "" America/New_York}`, `{buckettime {0} day}`, `{buckettime {0} hour auto Asia/Kolkata}`,
		`{timeattr {time {0}} quarter}`, `{timeformat {time {0} auto} RFC1123 Europe/London}`, `{timeattr {0} yearweek local}`, `{timeformat {0} "Mon Jan _2 2006" Australia/Lord_Howe}`,
		`{json {0} {1}}`, `{json {1}}`, `{json {0} a.b}{json b.#.c}`, `{duration {0}}`, `{durationformat {0}}`, `{select {0} 2}`, `{select {0} {1}}`, `{csv {0} {1} {2}}`,
		`{format {1} {0} {2}}`, `{hf {0}}{hi {0}}`, `{bytesize {0}}{bytesizesi {0} 2}{downscale {0} 1}`, `{percent {0} 2 {1}}`, `{percent {0} 1 {1} {2}}`,
		`{bucket {0} 10}{bucketrange {0} 7}{expbucket {0}}{clamp {0} -5 5}`, `{@split {0} ,}`, `{@join {@map {@split {0} " "} {upper {0}}} -}`,
		`{substr {0} {1} {2}}`, `{@slice {@split {0}} 1 2}{@select {@split {0} ,} -1}`, `{basename {0}}{dirname {0}}{extname {0}}`, `{lookup {0} "a b\nc d"}{haskey {0} "a\nb"}`,
		`{sumi {0} {1}}{multi {0} {1}}{subi {0} {1}}{maxi {0} {1}}`, `{divf {0} {1}}{pow {0} {1}}{sqrt {0}}{log2 {0}}{ln {0}}`, `{! [0] * 2 + [1] ^ 2}`, `{! ([0] & 0xff) | ([1] >> 2)}`, `{! sqrt([0]) / floor([1])}`,
		`{@reduce {@split {0} ,} {sumi {0} {1}}}`, `{@filter {@split {0} " "} {isint {0}}}`, `{upper {0}}{lower {0}}{len {0}}`, `{ceil {0}}{floor {0}}{round {0} 2}`, `{if {lt {0} {1}} {0} {1}}`,
		`{color red {0}}{tab {0} {1}}`, `{bar {0} 100 10}{bar {0} 100 10 log10}`, `{eq {0} {1}}{like {0} {1}}{prefix {0} {1}}{suffix {0} {1}}`, `{@in {0} {@ a b 1}}`, `{isint {0}}{isnum {0}}{not {0}}`,
		`{name} {src}:{line} {.} {#}`, `{0} {1} {2} {3} {4} {-1} {99999999999999999999}`,
	}
	t := tmpls[i%len(tmpls)]
	n := g.c.N(24, 40)
	var ctxs []Ctx
	for k := 0; k < n; k++ {
		var e []string
		for s := 0; s < 3; s++ {
			e = append(e, g.oddValue(r, t, s))
		}
		keys := map[string]string{"name": g.oddValue(r, t, 0), "src": "f", "line": "1", ".": pick(r, poolJSON), "#": pick(r, poolJSON)}
		ctxs = append(ctxs, mkCtx(e, keys))
	}
	cs := newCase("data", t, ctxs...)
	cs.Uni = r.Bool()
	return cs
}

// oddValue: a seed appropriate for the template's slot, usually mutated.
func (g *gen) oddValue(r *run.Rand, t string, slot int) string {
	var seed string
	switch {
	case strings.Contains(t, "{time ") || strings.Contains(t, "{buckettime"):
		seed = pick(r, poolDate)
	case strings.Contains(t, "{json"):
		if slot == 0 {
			seed = pick(r, poolJSON)
		} else {
			seed = pick(r, poolJPath)
		}
	case strings.Contains(t, "{duration "):
		seed = pick(r, poolDur)
	case strings.Contains(t, "{timeattr {0}") || strings.Contains(t, "{timeformat {0}") || strings.Contains(t, "durationformat"):
		seed = pick(r, poolUnix)
	case strings.Contains(t, "{format"):
		if slot == 1 {
			seed = pick(r, poolFmt)
		} else {
			seed = pick(r, poolAny)
		}
	case strings.Contains(t, "basename"):
		seed = pick(r, poolPath)
	case strings.Contains(t, "{! ") || strings.Contains(t, "sumi") || strings.Contains(t, "bucket") || strings.Contains(t, "substr") && slot > 0:
		seed = pick(r, poolInt)
	case strings.Contains(t, "divf") || strings.Contains(t, "percent") || strings.Contains(t, "{hf") || strings.Contains(t, "ceil"):
		seed = pick(r, poolFloat)
	default:
		switch r.Intn(4) {
		case 0:
			seed = pick(r, poolInt)
		case 1:
			seed = pick(r, poolStr)
		case 2:
			seed = pick(r, poolArr)
		default:
			seed = pick(r, poolAny)
		}
	}
	if len(seed) > 512 {
		seed = seed[:512]
	}
	switch r.Intn(3) {
	case 0:
		return seed
	default:
		return mutate(r, seed, 1+r.Intn(3), []string{"0", "1", "9", "/", "-", ".", ":", ",", " ", "+", "T", "Z", "a", "p", "m", "A", "P", "M", "(", ")", "年", "月", "日", "\x00", "\xff", "\"", "\\", "{", "}", "[", "]", "#", "@", "|", "*", "?", "=", "!", "%", "e", "E", "x", "_", "\t", "\n", "99999999999", "é"})
	}
}

// mutate applies k byte-level edits.
func mutate(r *run.Rand, s string, k int, alphabet []string) string {
	b := []byte(s)
	for ; k > 0; k-- {
		pos := 0
		if len(b) > 0 {
			pos = r.Intn(len(b) + 1)
		}
		switch r.Intn(7) {
		case 0: // delete
			if pos < len(b) {
				b = append(b[:pos:pos], b[pos+1:]...)
			}
		case 1: // insert
			b = append(b[:pos:pos], append([]byte(pick(r, alphabet)), b[pos:]...)...)
		case 2: // replace
			if pos < len(b) {
				b = append(b[:pos:pos], append([]byte(pick(r, alphabet)), b[pos+1:]...)...)
			}
		case 3: // truncate
			b = b[:pos]
		case 4: // duplicate a short chunk
			if pos < len(b) {
				end := min(len(b), pos+1+r.Intn(6))
				ch := append([]byte(nil), b[pos:end]...)
				b = append(b[:end:end], append(ch, b[end:]...)...)
			}
		case 5: // swap neighbours
			if pos+1 < len(b) {
				b[pos], b[pos+1] = b[pos+1], b[pos]
			}
		case 6: // drop the tail after a random later point and keep the head of another position
			if pos < len(b) && len(b) > 2 {
				q := r.Intn(len(b))
				if q > pos {
					b = append(b[:pos:pos], b[q:]...)
				}
			}
		}
	}
	return string(b)
}

// ---------------------------------------------------------------- stream 4: malformed templates

// helpers kept out of mutated templates: a byte edit must not be able to turn a
// small size into a huge one
var noMutate = map[string]bool{"repeat": true, "bar": true, "@range": true, "@for": true, "@reduce": true, "round": true, "percent": true,
	"bytesize": true, "bytesizesi": true, "downscale": true, "load": true}

func (g *gen) malformedCase(r *run.Rand, i int) *Case {
	b := &cb{keys: map[string]string{}, special: true}
	var t string
	var ctxs []Ctx
	switch r.Intn(5) {
	case 0, 1: // raw string over the template alphabet
		var sb strings.Builder
		for k := r.Range(1, 40); k > 0; k-- {
			sb.WriteString(pick(r, rawAlphabet))
		}
		t = sb.String()
	default: // mutation of a well-formed template
		var names []string
		for _, n := range g.names {
			if !noMutate[n] {
				names = append(names, n)
			}
		}
		gg := *g
		gg.names = names
		var parts []*Node
		for k := 1 + r.Intn(2); k > 0; k-- {
			fn := pick(r, names)
			parts = append(parts, gg.safeCallNode(r, fn, 1+r.Intn(2), b))
		}
		root := parts[0]
		if len(parts) > 1 {
			root = &Node{K: kCat, Args: append([]*Node{parts[0], lit(pick(r, []string{" ", "", "\\", "\"", "x"}))}, parts[1:]...)}
		}
		ctxs = g.contexts(r, b, 1)
		if !admissible(root, ctxs) {
			return nil
		}
		t = mutate(r, root.String(), 1+r.Intn(3), rawAlphabet)
	}
	if g.kEscape && strings.HasSuffix(t, `\`) && r.Intn(4) != 0 {
		t += "n" // a template ending in an escape character: input class of an active known finding (kept at a low rate)
	}
	if ctxs == nil {
		ctxs = g.contexts(r, b, 1)
	}
	cs := newCase("malformed", t, ctxs...)
	cs.Uni = r.Bool()
	return cs
}

// safeCallNode: like callNode but every nested helper comes from g.names
// (which excludes the size-taking helpers here).
func (g *gen) safeCallNode(r *run.Rand, fn string, depth int, b *cb) *Node {
	n := g.callNode(r, fn, depth, false, b)
	scrub(n, g, r)
	return n
}

func scrub(n *Node, g *gen, r *run.Rand) {
	if n.K == kCall && noMutate[n.Fn] {
		n.K, n.S, n.Args = kLit, "x", nil
		return
	}
	for _, a := range n.Args {
		scrub(a, g, r)
	}
}

// ---------------------------------------------------------------- fixed shapes

// shapeCases: the shapes that are always included (trailing backslash is in
// the pinned list): lone quotes, stray braces, deep nesting, long templates.
func shapeCases(c *run.Ctx) []*Case {
	ctx := mkCtx([]string{"a\x00b", "1", "x"}, map[string]string{"name": "v"})
	deep := c.Pick(700, 2000) // nesting depth: a bound, not a count (templates stay below 64 KiB)
	var out []*Case
	add := func(t string) { out = append(out, newCase("shape", t, ctx, mkCtx(nil, nil))) }
	for _, t := range []string{`"`, `{"}`, `{coalesce "}`, `{coalesce "a}`, `{`, `}`, `}{`, `{}`, `{ }`, `{{}}`, `{{`, `}}`, `{0`, `0}`, `{ 0 }`, `{"0"}`, `{""}`, `{"" ""}`,
		`{nosuchfn 1}`, `{nosuchfn}`, `{ sumi 1 2 }`, "{sumi\t1\n2}", `{sumi 1 2`, `{sumi {0} {1}`, `{sumi {0 1}}`, `{sumi "1 2}`, `{@map {0} "{0}"}`, `{@map {0} {upper {0}}`, `\{0\}`, `\\`, `\n\r\t\x`, `{\}`, `{\{}`, `{a\ b}`,
		`{"{"}`, `{"}"}`, `{coalesce {"}"}}`, `{coalesce "{" "}"}`, `{coalesce }{}`, "{coalesce \x00}", "{\x00}", "{\xff}", "\xff{\xff \xff}", `{é}`, `{日本 語}`} {
		add(t)
	}
	add(strings.Repeat("{", deep) + strings.Repeat("}", deep))
	add(strings.Repeat("{", deep))
	add(strings.Repeat("}", deep))
	add(strings.Repeat("{coalesce ", deep) + "x" + strings.Repeat("}", deep))
	add(strings.Repeat("{coalesce ", deep) + "{0}" + strings.Repeat("}", deep))
	add(strings.Repeat("{coalesce ", deep))
	add(strings.Repeat(`{coalesce "`, 400) + "x" + strings.Repeat(`"}`, 400))
	add(strings.Repeat(`{upper {lower `, deep/2) + "{0}" + strings.Repeat("}}", deep/2))
	add("{! " + strings.Repeat("(", deep) + "1" + strings.Repeat(")", deep) + "}")
	add("{! " + strings.Repeat("(", deep) + "}")
	add("{! " + strings.Repeat("-", deep) + "1}")
	add("{! " + strings.Repeat("abs(", 500) + "[0]" + strings.Repeat(")", 500) + "}")
	add("{! 1" + strings.Repeat(" + 1", 5000) + "}")
	add("{! 1" + strings.Repeat(" ^ 1", 3000) + "}")
	add("{! 1" + strings.Repeat(" + [0] * 2", 3000) + "}")
	add(strings.Repeat("x", 64*1024))
	add(strings.Repeat(`\`, 64*1024))
	add(strings.Repeat("{0}", 21000))
	add("{sumi" + strings.Repeat(" 1", 30000) + "}")
	add("{sumi" + strings.Repeat(" {0}", 16000) + "}")
	add("{coalesce " + strings.Repeat(`"`, 60001) + "}")
	add("{switch" + strings.Repeat(` "" x`, 10000) + " y}")
	add(`{format "` + strings.Repeat("%s", 20000) + `" {0}}`)
	add("{@ " + strings.Repeat("a ", 30000) + "}")
	add("{@map {@split " + strings.Repeat("a,", 20000) + " ,} {upper {0}}}")
	return out
}
