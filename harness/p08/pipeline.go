package p08

import (
	"fmt"
	"os"
	"path/filepath"
	"time"

	"verifharness/internal/pipe"
	"verifharness/internal/run"
)

// "a single odd line cannot abort a scan": the match data an expression meets in a scan comes from the extractor's own
// context object, not from the harness's. Groups that did not take part in a match (the other branch of an
// alternation, an optional group) carry no offsets; every view of the match ({1}.., names, {@}, {.}, {#}, {.#},
// {src}, {line}) must read them as empty. A panic in a worker goroutine ends the process: the journalled case is then
// re-run alone by the orchestrator and reported as a crash.
var pipeMatchers = []pipe.MatcherSpec{
	{Kind: "regex", Pattern: `(a+)|(b+)`},
	{Kind: "regex", Pattern: `(x)?(\w+)(?: (\d+))?`},
	{Kind: "regex", Pattern: `(?P<verb>GET|PUT)?(?: (?P<n>\d+))?(?P<rest>.*)`},
	{Kind: "regex", Pattern: `^(?:(k)=(\w*))?(;)?`},
	{Kind: "regex", Pattern: `((a)|(b))*(c)?`},
	{Kind: "dissect", Pattern: "%{a} %{?skip} %{b}"},
	{Kind: "regex", Pattern: `(?P<all>.*?)(?P<tail>\d+)?$`},
}

var pipeExtracts = []string{
	"{@}", "[{1}|{2}|{3}|{4}|{5}]", "{.}", "{#}", "{.#}", "{#.}", "{src}:{line}:{0}", "{@len {@}}", "{@join {@} +}", "{@select {@} 2}", "{@slice {@} 1 2}",
	"{verb}/{n}/{rest}", "{all}{tail}", "{sumi {2} {3}}", "{upper {@}}", "{$ {1} {2} {9}}", "{@map {@} {len {0}}}", "{coalesce {1} {2} {3} none}",
}

var pipeLines = []string{"a", "b", "aab", "", "xfoo", "foo 12", "foo", "GET 5 /x", "/y", "PUT", "k=v;", "k=", ";", "c", "abc", "ab ab", "tail 99", "99", " ", "é 7", "\xff\x00b"}

func pipelineCases(c *run.Ctx) {
	n := c.N(240, 2400)
	for i := 0; i < n; i++ {
		if !c.Mine(i) {
			continue
		}
		pipelineOne(c, i)
	}
}

func pipelineOne(c *run.Ctx, i int) {
	r := c.Rand("pipeline", i)
	w := &pipe.Workload{Scenario: "odd-lines", Matcher: pipeMatchers[i%len(pipeMatchers)], Extract: pipeExtracts[(i/len(pipeMatchers))%len(pipeExtracts)], Seed: r.U64()}
	if r.Intn(3) == 0 {
		w.Ignore = []string{[]string{"{eq {@} zzz}", "{eq {.} zzz}", "{prefix {2} zzz}"}[r.Intn(3)]}
	}
	nIn := r.Range(1, 3)
	for k := 0; k < nIn; k++ {
		var data []byte
		nl := r.Range(1, 40)
		for l := 0; l < nl; l++ {
			data = append(data, pipeLines[r.Intn(len(pipeLines))]...)
			data = append(data, '\n')
		}
		w.Inputs = append(w.Inputs, pipe.Input{Name: fmt.Sprintf("o%d", k), Data: data})
	}
	w.Cfg = pipe.Config{Mode: "files", Batch: []int{1, 3, 1000}[r.Intn(3)], Workers: []int{1, 2}[r.Intn(2)], Readers: 1, Buffer: 2, GoMaxProcs: 2, Delay: "none", Consumer: "fast"}
	cs := &Case{Kind: "pipeline", T: b64(w.Extract), Show: fmt.Sprintf("%s through the extractor, matcher %s %q, case %d", w.Extract, w.Matcher.Kind, w.Matcher.Pattern, i), Opts: []bool{true}}
	cs.CliSecs = i // the generator coordinate (replay)
	c.Begin(cs, 300*time.Second)
	defer c.End()
	dir := filepath.Join(c.WorkDir, "pipe08")
	os.RemoveAll(dir)
	os.MkdirAll(dir, 0o755)
	defer os.RemoveAll(dir)
	obs := pipe.Run(w, dir, 200*time.Second)
	c.Count("pipeline_runs", 1)
	if obs.TimedOut {
		c.Inconclusive("pipeline family: run exceeded 200 s")
		return
	}
	if obs.Panic != "" {
		c.Violation("panic:pipeline:"+w.Matcher.Pattern, fmt.Sprintf("evaluating %s through the extractor (matcher %s %q) panicked: %s", w.Extract, w.Matcher.Kind, w.Matcher.Pattern, obs.Panic), cs)
		return
	}
	c.Evals(len(obs.Matches))
	c.Count("pipeline_matches_evaluated", int64(len(obs.Matches)))
	if len(obs.Matches) > 0 {
		c.Nontrivial("pipeline", fmt.Sprint(i))
	}
}
