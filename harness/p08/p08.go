// Package p08 decides C08: no template and no input line can crash expression
// compilation or evaluation (pkg/expressions, stdlib, stdmath).
//
// Oracle: absence of panics / fatal errors / non-return around
// funclib.NewKeyBuilderEx(opt).Compile and CompiledKeyBuilder.BuildKey, plus
// "Compile returns a builder or errors". What string comes back is not judged.
package p08

import (
	"encoding/base64"
	"encoding/json"
	"fmt"
	"os"
	"regexp"
	"strings"
	"time"

	"rare/pkg/color"
	"rare/pkg/expressions"
	"rare/pkg/expressions/funclib"
	"rare/pkg/multiterm/termunicode"

	"verifharness/internal/reg"
	"verifharness/internal/run"
)

func init() { reg.Register("C08", Run) }

// Ctx is one match context (values base64: they may hold any bytes).
type Ctx struct {
	E []string          `json:"e_b64"`
	K map[string]string `json:"k_b64,omitempty"`
}

// Case is one template evaluated, optimised and not, against several contexts.
type Case struct {
	Kind string `json:"kind"` // calls | tree | data | malformed | shape | pinned | cli
	T    string `json:"tmpl_b64"`
	Show string `json:"tmpl"` // human-readable rendering, informational only
	Ctxs []Ctx  `json:"ctxs"`
	Opts []bool `json:"opts,omitempty"` // default: optimised and unoptimised
	Uni  bool   `json:"unicode"`        // termunicode.UnicodeEnabled during the case
	// CLI cases (Kind == "cli"): the template goes to `rare expression` in a child process
	CliVmemKB int `json:"cli_vmem_kb,omitempty"`
	CliSecs   int `json:"cli_secs,omitempty"`
	// maxOut: the generator's upper bound on the output size (resource guard); not part of the case
	maxOut float64
}

func b64(s string) string { return base64.StdEncoding.EncodeToString([]byte(s)) }
func unb64(s string) string {
	b, _ := base64.StdEncoding.DecodeString(s)
	return string(b)
}

func mkCtx(elems []string, keys map[string]string) Ctx {
	c := Ctx{}
	for _, e := range elems {
		c.E = append(c.E, b64(e))
	}
	if len(keys) > 0 {
		c.K = map[string]string{}
		for k, v := range keys {
			c.K[k] = b64(v)
		}
	}
	return c
}

func (x Ctx) build() *expressions.KeyBuilderContextArray {
	out := &expressions.KeyBuilderContextArray{Keys: map[string]string{}}
	for _, e := range x.E {
		out.Elements = append(out.Elements, unb64(e))
	}
	for k, v := range x.K {
		out.Keys[k] = unb64(v)
	}
	return out
}

func (x Ctx) show() string {
	a := x.build()
	var sb strings.Builder
	sb.WriteString("[")
	for i, e := range a.Elements {
		if i > 0 {
			sb.WriteString(" ")
		}
		sb.WriteString(run.Q(e))
	}
	sb.WriteString("]")
	if len(a.Keys) > 0 {
		ks := sortedKeys(a.Keys)
		sb.WriteString(" keys{")
		for i, k := range ks {
			if i > 0 {
				sb.WriteString(" ")
			}
			sb.WriteString(k + "=" + run.Q(a.Keys[k]))
		}
		sb.WriteString("}")
	}
	return sb.String()
}

func newCase(kind, tmpl string, ctxs ...Ctx) *Case {
	show := tmpl
	if len(show) > 300 {
		show = fmt.Sprintf("%s…(%d bytes)", show[:300], len(tmpl))
	}
	return &Case{Kind: kind, T: b64(tmpl), Show: fmt.Sprintf("%q", show), Ctxs: ctxs}
}

// ---------------------------------------------------------------- running one case

type panicInfo struct {
	Phase string // compile | eval
	Opt   bool
	CtxI  int
	Msg   string
	Stack string
	Top   string // first rare/ frame (function name) of the panic stack
	Fn    string // innermost builtin in flight (traced re-run), "" if none / not reproduced
	Build bool   // that builtin was constructing its stage (compile time)
	Args  []string
	Seen  []bool
	Chain []string // all builtins in flight, outermost first
}

var reFrame = regexp.MustCompile(`(?m)^(rare/[^\s(]+(?:\(\*[^)]+\))?[^\s(]*)\(`)

// topRareFrame returns the first frame of rare code below the panic.
func topRareFrame(stack string) string {
	// skip everything up to the runtime panic frames
	if i := strings.Index(stack, "panic("); i >= 0 {
		stack = stack[i:]
	}
	for _, ln := range strings.Split(stack, "\n") {
		if strings.HasPrefix(ln, "rare/") {
			if j := strings.LastIndex(ln, "("); j > 0 {
				return ln[:j]
			}
			return ln
		}
	}
	return ""
}

func compileGuarded(kb *expressions.KeyBuilder, tmpl string) (ckb *expressions.CompiledKeyBuilder, errs *expressions.CompilerErrors, p bool, val any, stack string) {
	p, val, stack = run.Guard(func() {
		ckb, errs = kb.Compile(tmpl)
	})
	return
}

// diagnose re-runs (template, opt, context) on the traced builder to learn
// which builtin was in flight and with which argument values.
func diagnose(tmpl string, opt bool, ctx *Ctx, pi *panicInfo) {
	kb, tr := newTracedBuilder(opt)
	ckb, _, p, _, _ := compileGuarded(kb, tmpl)
	if !p && ckb != nil && ctx != nil && pi.Phase == "eval" {
		tr.stack = nil
		a := ctx.build()
		p, _, _ = run.Guard(func() { ckb.BuildKey(a) })
	}
	if !p {
		return
	}
	if f := tr.innermost(); f != nil {
		pi.Fn, pi.Build, pi.Args, pi.Seen = f.Name, f.Build, f.Args, f.Seen
	}
	pi.Chain = tr.names()
}

type outcome struct {
	panics   []*panicInfo
	compiled bool // at least one builder came back non-nil
	evals    int
}

// runCase executes one case. It never reports; the caller classifies.
func runCase(c *run.Ctx, cs *Case) (out outcome, nilnil bool) {
	tmpl := unb64(cs.T)
	opts := cs.Opts
	if len(opts) == 0 {
		opts = []bool{true, false}
	}
	termunicode.UnicodeEnabled = cs.Uni
	color.Enabled = true
	for _, opt := range opts {
		ckb, errs, p, val, stack := compileGuarded(funclib.NewKeyBuilderEx(opt), tmpl)
		c.Count("compiled", 1)
		if p {
			pi := &panicInfo{Phase: "compile", Opt: opt, CtxI: -1, Msg: fmt.Sprint(val), Stack: stack, Top: topRareFrame(stack)}
			diagnose(tmpl, opt, nil, pi)
			out.panics = append(out.panics, pi)
			continue
		}
		if ckb == nil {
			if errs == nil {
				nilnil = true
			}
			c.Count("compile_errors_only", 1)
			continue
		}
		if errs != nil {
			c.Count("compiled_with_errors", 1)
		}
		out.compiled = true
		for ci := range cs.Ctxs {
			a := cs.Ctxs[ci].build()
			var s string
			p, val, stack := run.Guard(func() { s = ckb.BuildKey(a) })
			out.evals++
			if p {
				pi := &panicInfo{Phase: "eval", Opt: opt, CtxI: ci, Msg: fmt.Sprint(val), Stack: stack, Top: topRareFrame(stack)}
				diagnose(tmpl, opt, &cs.Ctxs[ci], pi)
				out.panics = append(out.panics, pi)
				continue
			}
			if strings.Contains(s, "<") && strings.Contains(s, ">") {
				c.Count("evaluated_with_error_marker", 1)
			}
			c.Max("max_output_bytes", int64(len(s)))
			if cs.maxOut > 0 && float64(len(s)) > cs.maxOut {
				// self-check of the resource guard (never a verdict): its model of a helper is too small
				c.Count("size_bound_model_underestimates", 1)
				c.Note(fmt.Sprintf("size bound %0.f < actual output %d for template %s", cs.maxOut, len(s), cs.Show))
			}
		}
	}
	c.Count("evaluated", int64(out.evals))
	c.Evals(out.evals)
	return
}

var reDigits = regexp.MustCompile(`-?[0-9]+`)
var reHex = regexp.MustCompile(`0x[0-9a-f]+`)

func normMsg(m string) string {
	m = reHex.ReplaceAllString(m, "0x?")
	m = reDigits.ReplaceAllString(m, "N")
	if len(m) > 120 {
		m = m[:120]
	}
	return m
}

// report turns the outcome into violations. It returns true when every panic
// of the case belongs to a class that is an active known finding.
func report(c *run.Ctx, cs *Case, out outcome, nilnil bool) (onlyKnown bool, any bool) {
	tmpl := unb64(cs.T)
	if nilnil {
		any = true
		c.Violation("compile:nil-builder-nil-errors:"+run.Hash64(tmpl),
			fmt.Sprintf("Compile(%s) returned neither a builder nor errors", run.Q(tmpl)), cs)
	}
	onlyKnown = len(out.panics) > 0
	for _, pi := range out.panics {
		any = true
		fp := classify(tmpl, cs, pi)
		if !c.KnownActive(fp) {
			onlyKnown = false
		} else {
			c.Count("known_class_hits", 1)
		}
		// the replayable case: just this template, flag and context
		one := &Case{Kind: cs.Kind, T: cs.T, Show: cs.Show, Opts: []bool{pi.Opt}, Uni: cs.Uni}
		ctxShow := "(compile time)"
		if pi.CtxI >= 0 {
			one.Ctxs = []Ctx{cs.Ctxs[pi.CtxI]}
			ctxShow = cs.Ctxs[pi.CtxI].show()
		}
		fn := "(no builtin in flight)"
		if pi.Fn != "" {
			var av []string
			for i, a := range pi.Args {
				if pi.Seen[i] {
					av = append(av, run.Q(a))
				} else {
					av = append(av, "_")
				}
			}
			ph := "evaluating"
			if pi.Build {
				ph = "constructing"
			}
			fn = fmt.Sprintf("%s {%s %s} (calls in flight: %s)", ph, pi.Fn, strings.Join(av, " "), strings.Join(pi.Chain, " > "))
		}
		c.Violation(fp, fmt.Sprintf("panic during %s (optimise=%v): template %s context %s: expected a string (or compile errors), observed panic %q at %s while %s\n%s",
			pi.Phase, pi.Opt, run.Q(tmpl), ctxShow, pi.Msg, pi.Top, fn, firstLines(pi.Stack, 24)), one)
	}
	return
}

func firstLines(s string, n int) string {
	l := strings.Split(s, "\n")
	if len(l) > n {
		l = l[:n]
	}
	return strings.Join(l, "\n")
}

var reCall = regexp.MustCompile(`\{[^{}\s"]+\s+[^}\s]`)

func markNontrivial(c *run.Ctx, cs *Case, out outcome) {
	if !out.compiled {
		return
	}
	tmpl := unb64(cs.T)
	if !reCall.MatchString(tmpl) {
		return
	}
	// one fingerprint per (template, contexts) group: the evaluations of a group share the template
	parts := []string{cs.T}
	for _, x := range cs.Ctxs {
		parts = append(parts, strings.Join(x.E, ","), ctxKeyHash(x))
	}
	c.Nontrivial(parts...)
	c.Count("templates_with_call_compiled", 1)
}

func ctxKeyHash(x Ctx) string {
	if len(x.K) == 0 {
		return ""
	}
	var parts []string
	for _, k := range sortedKeys(x.K) {
		parts = append(parts, k, x.K[k])
	}
	return run.Hash64(parts...)
}

// exec runs a case under the journal / watchdog and reports it.
func execCase(c *run.Ctx, cs *Case) (onlyKnown bool) {
	onlyKnown, _ = execCaseOut(c, cs)
	return
}

func execCaseOut(c *run.Ctx, cs *Case) (onlyKnown bool, out outcome) {
	// watchdog only (a firing alone is inconclusive): generous, the machine may be shared with 100+ busy processes
	limit := 240 * time.Second
	if cs.Kind == "shape" {
		limit = 600 * time.Second // 2000-level nesting is quadratic in the compiler: seconds when idle
	}
	c.Begin(cs, limit)
	t0 := time.Now()
	out, nilnil := runCase(c, cs)
	c.End()
	// bookkeeping only (never part of a verdict): which case was the slowest
	if ms := time.Since(t0).Milliseconds(); ms > 1500 {
		c.Max("max_case_ms", ms)
		fmt.Fprintf(os.Stderr, "slow case (%d ms): %s %s\n", ms, cs.Kind, cs.Show)
	}
	markNontrivial(c, cs, out)
	onlyKnown, _ = report(c, cs, out, nilnil)
	return
}

// ---------------------------------------------------------------- Run

func Run(c *run.Ctx) {
	if c.Replay != nil {
		var cs Case
		if err := json.Unmarshal(c.Replay, &cs); err != nil || cs.T == "" {
			c.Inconclusive("bad replay case")
			return
		}
		if cs.Kind == "cli" {
			if crashed, detail := runCli(c, &cs); crashed {
				fp := "cli-crash:" + run.Hash64(cs.T)
				for _, w := range fatalWitnesses() {
					if w.cs.T == cs.T {
						fp = w.fp
					}
				}
				c.Violation(fp, fmt.Sprintf("`rare expression` on template %s: %s", cs.Show, detail), &cs)
			}
			return
		}
		if cs.Kind == "pipeline" {
			pipelineOne(c, cs.CliSecs)
			return
		}
		execCase(c, &cs)
		return
	}
	var names []string
	for n := range funclib.Builtins {
		names = append(names, n)
	}
	g := newGen(c, names)
	c.Max("max_builtins", int64(len(g.names)))
	for _, n := range g.names {
		if _, ok := sigs[n]; !ok {
			c.Note("builtin without a harness signature (covered by pool arguments only): " + n)
		}
	}

	// 1. pinned witnesses and fixed shapes: always, first (fresh process state), every shard
	var pinnedPanicked []bool
	for _, cs := range pinnedCases() {
		if strings.Contains(cs.Show, "{@for a 1 b}") && !(c.Mine(2) || c.Shards == 1) {
			// the iteration-cap witness costs a million iterations: one shard runs it
			pinnedPanicked = append(pinnedPanicked, false)
			continue
		}
		_, out := execCaseOut(c, cs)
		pinnedPanicked = append(pinnedPanicked, len(out.panics) > 0)
		c.Count("pinned_cases", 1)
	}
	if c.Shard == 0 {
		cliSpotChecks(c, pinnedPanicked)
	}
	for i, cs := range shapeCases(c) {
		if c.Mine(i) {
			execCase(c, cs)
			c.Count("shape_cases", 1)
		}
	}

	pipelineCases(c)

	// 2. generated streams
	type stream struct {
		name string
		n    int
		gen  func(r *run.Rand, i int) *Case
	}
	streams := []stream{
		{"calls", c.N(52000, 1000000), g.callsCase},
		{"tree", c.N(28000, 600000), g.treeCase},
		{"data", c.N(3000, 50000), g.dataCase},
		{"malformed", c.N(28000, 600000), g.malformedCase},
	}
	for _, st := range streams {
		for i := 0; i < st.n; i++ {
			if !c.Mine(i) {
				continue
			}
			for attempt := 0; ; attempt++ {
				r := c.Rand(st.name, i, attempt)
				cs := st.gen(r, i)
				if cs == nil {
					c.Count("gen_rejected_by_size_bound", 1)
					if attempt >= 12 {
						break
					}
					continue
				}
				if i < 2 && attempt == 0 {
					c.Sample(map[string]any{"stream": st.name, "template": cs.Show, "contexts": len(cs.Ctxs), "first_context": cs.Ctxs[0].show()})
				}
				c.Count("cases_"+st.name, 1)
				onlyKnown := execCase(c, cs)
				if onlyKnown && attempt < 12 && st.name != "data" {
					// the case fell into the input class of an active known finding:
					// stay out of it, draw a replacement from the same stream
					c.Count("known_class_redraws", 1)
					continue
				}
				break
			}
			if c.Violations() >= 6 {
				return
			}
		}
	}
}
