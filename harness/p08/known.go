package p08

import (
	"bytes"
	"context"
	"fmt"
	"math"
	osexec "os/exec"
	"regexp"
	"sort"
	"strconv"
	"strings"
	"time"

	"verifharness/internal/run"
)

func sortedKeys(m map[string]string) []string {
	ks := make([]string, 0, len(m))
	for k := range m {
		ks = append(ks, k)
	}
	sort.Strings(ks)
	return ks
}

// Fingerprints of the narrow crash classes this check knows by name. A panic
// gets one of them only if the helper in flight, the panic and the argument
// values all match the class; everything else gets a generic fingerprint
// "panic:<phase>:<helper>:<normalised message>" and is reported as a violation.
const (
	fpEscapeAtEnd   = "panic:compile:escape-at-end"
	fpDiviZero      = "panic:divi:zero-divisor"
	fpModiZero      = "panic:modi:zero-divisor"
	fpRepeatNeg     = "panic:repeat:negative-count"
	fpSubstrOvf     = "panic:substr:length-overflow"
	fpSubCtxNeg     = "panic:subcontext:negative-index"
	fpForParent     = "panic:@for:subcontext-parent-unset"
	fpMathModZero   = "panic:!:modulo-zero"
	fpMathShiftNeg  = "panic:!:negative-shift"
	fpMathDangling  = "panic:!:dangling-unary-operator"
	fpRangeOverflow = "noreturn:@range:increment-overflow"
)

func atoi(s string) (int, bool) {
	v, err := strconv.Atoi(s)
	return v, err == nil
}

func inChain(chain []string, fn string) bool {
	for _, c := range chain {
		if c == fn {
			return true
		}
	}
	return false
}

func classify(tmpl string, cs *Case, pi *panicInfo) string {
	msg := pi.Msg
	arg := func(i int) (string, bool) {
		if i < len(pi.Args) && pi.Seen[i] {
			return pi.Args[i], true
		}
		return "", false
	}
	switch {
	// template (or a quoted argument, compiled recursively) ends in an escape character
	case pi.Phase == "compile" && pi.Fn == "" && strings.HasSuffix(pi.Top, "expressions.(*KeyBuilder).Compile") &&
		strings.Contains(tmpl, `\`) && isIndexAtLen(msg):
		return fpEscapeAtEnd

	case (pi.Fn == "divi" || pi.Fn == "modi") && strings.Contains(msg, "integer divide by zero"):
		for i := 1; i < len(pi.Args); i++ {
			if s, ok := arg(i); ok {
				if v, ok := atoi(s); ok && v == 0 {
					if pi.Fn == "divi" {
						return fpDiviZero
					}
					return fpModiZero
				}
			}
		}

	case pi.Fn == "repeat" && strings.Contains(msg, "negative Repeat count"):
		if s, ok := arg(1); ok {
			if v, ok := atoi(s); ok && v < 0 {
				return fpRepeatNeg
			}
		}

	case pi.Fn == "substr" && strings.Contains(msg, "slice bounds out of range"):
		s0, ok0 := arg(0)
		s2, ok2 := arg(2)
		if ok0 && ok2 {
			if l, ok := atoi(s2); ok && l > math.MaxInt-len(s0) {
				return fpSubstrOvf
			}
		}

	case strings.HasSuffix(pi.Top, "stdlib.(*subContext).GetMatch") && strings.Contains(msg, "index out of range [-"):
		return fpSubCtxNeg

	case strings.HasSuffix(pi.Top, "stdlib.(*subContext).GetKey") && strings.Contains(msg, "nil pointer dereference") &&
		inChain(pi.Chain, "@for"):
		return fpForParent

	case pi.Fn == "!" && strings.Contains(msg, "integer divide by zero") && strings.Contains(strings.Join(pi.Args, ""), "%"):
		return fpMathModZero

	case pi.Fn == "!" && strings.Contains(msg, "negative shift amount") &&
		(strings.Contains(strings.Join(pi.Args, ""), "<<") || strings.Contains(strings.Join(pi.Args, ""), ">>")):
		return fpMathShiftNeg

	case pi.Fn == "!" && pi.Build && strings.Contains(pi.Top, "stdmath.(*tokenScanner)") && msg == "runtime error: index out of range [0] with length 0" &&
		endsInUnaryOp(strings.Join(pi.Args, "")):
		return fpMathDangling
	}
	fn := pi.Fn
	if fn == "" {
		fn = "-"
	}
	return "panic:" + pi.Phase + ":" + fn + ":" + normMsg(msg)
}

// "index out of range [N] with length N"
func isIndexAtLen(msg string) bool {
	var a, b int
	if n, _ := fmt.Sscanf(msg, "runtime error: index out of range [%d] with length %d", &a, &b); n == 2 {
		return a == b
	}
	return false
}

// some (sub)formula ends in a unary operator character: "-" or "!" followed,
// blanks aside, by a closing parenthesis or the end of the formula
var reDanglingUnary = regexp.MustCompile(`[-!] *(\)|$)`)

func endsInUnaryOp(formula string) bool { return reDanglingUnary.MatchString(formula) }

// ---------------------------------------------------------------- pinned witnesses

func pin(tmpl string, elems []string, keys map[string]string) *Case {
	cs := newCase("pinned", tmpl, mkCtx(elems, keys))
	return cs
}

// pinnedCases: one minimal witness per crash class met so far. They are
// always executed, first, in every shard; once the defect is repaired they
// are the regression cases.
func pinnedCases() []*Case {
	k := map[string]string{"k": "3", "name": "x"}
	return []*Case{
		// must stay first: needs the untouched sub-context pool of a fresh process
		pin(`{@for 0 {lt {1} {k}} x}`, []string{"a"}, k),
		pin(`abc\`, nil, nil),
		pin(`{coalesce "a\\\\"}`, nil, nil),
		pin(`{divi {0} {1}}`, []string{"7", "0"}, nil),
		pin(`{divi 7 0}`, nil, nil),
		pin(`{modi {0} {1}}`, []string{"7", "0"}, nil),
		pin(`{modi 7 0}`, nil, nil),
		pin(`{repeat x {0}}`, []string{"-1"}, nil),
		pin(`{repeat x -1}`, nil, nil),
		pin(`{substr {0} 1 9223372036854775807}`, []string{"abc"}, nil),
		pin(`{@map {0} {-1}}`, []string{"a\x00b"}, nil),
		pin(`{@filter {0} {time live}}`, []string{"a\x00b"}, nil),
		pin(`{@reduce {0} {-1}}`, []string{"a\x00b"}, nil),
		pin(`{@for a {-1} b}`, nil, nil),
		pin(`{! 5 % [0]}`, []string{"0"}, nil),
		pin(`{! 5 % 0}`, nil, nil),
		pin(`{! 1 << [0]}`, []string{"-1"}, nil),
		pin(`{! 1 >> -1}`, nil, nil),
		pin(`{! -}`, nil, nil),
		pin(`{! 1 + !}`, nil, nil),
		// guards that exist today and must keep holding
		pin(`{@for a 1 b}`, nil, nil),             // iteration cap: returns <INF>
		pin(`{@range 0 10 0}`, nil, nil),          // <VALUE>
		pin(`{bucket {0} 0}`, []string{"5"}, nil), // <VALUE> at compile time
		pin(`{@map {0} {k}}{@filter {0} {k}}{@reduce {0} {k}}`, []string{"a\x00b"}, k),
		pin(`{substr {0} -5 2}{substr {0} 9 9}{substr {0} 2 -1}`, []string{"abc"}, nil),
		pin(`{@slice {0} -9 5}{@slice {0} 9}{@select {0} -9}{select {0} -1}`, []string{"a\x00b"}, nil),
		pin(`{divf 1 0}{! 1 / 0}{log10 0}{sqrt -1}{expbucket 0}{ceil 1e308}{floor NaN}`, nil, nil),
	}
}

// ---------------------------------------------------------------- CLI

// runCli runs `rare expression` on the case in a child process under its own
// address-space limit. It reports a crash (panic / fatal error trace on
// stderr) or a non-return within the generous limit.
func runCli(c *run.Ctx, cs *Case) (crashed bool, detail string) {
	if c.RareBin == "" {
		return false, ""
	}
	tmpl := unb64(cs.T)
	vm := cs.CliVmemKB
	if vm <= 0 {
		vm = 2 * 1024 * 1024
	}
	secs := cs.CliSecs
	if secs <= 0 {
		secs = 120
	}
	args := []string{"-c", fmt.Sprintf("ulimit -v %d; exec \"$@\"", vm), "bash", c.RareBin, "expression", "-n"}
	if len(cs.Ctxs) > 0 {
		a := cs.Ctxs[0].build()
		for _, e := range a.Elements {
			args = append(args, "-d", e)
		}
		for _, k := range sortedKeys(a.Keys) {
			args = append(args, "-k", k+"="+a.Keys[k])
		}
	}
	args = append(args, "-")
	c.Begin(cs, time.Duration(secs+60)*time.Second)
	defer c.End()
	cx, cancel := context.WithTimeout(context.Background(), time.Duration(secs)*time.Second)
	defer cancel()
	cmd := osexec.CommandContext(cx, "bash", args...)
	cmd.Stdin = strings.NewReader(tmpl)
	var so, se cappedBuf
	cmd.Stdout, cmd.Stderr = &so, &se
	err := cmd.Run()
	c.Count("cli_runs", 1)
	stderr := se.String()
	switch {
	case cx.Err() != nil:
		c.Count("cli_timeouts", 1)
		return true, fmt.Sprintf("%s %d s (killed)", cliTimeoutMark, secs)
	case strings.Contains(stderr, "goroutine ") && (strings.Contains(stderr, "panic:") || strings.Contains(stderr, "fatal error:")):
		first := ""
		for _, ln := range strings.Split(stderr, "\n") {
			if strings.HasPrefix(ln, "panic:") || strings.HasPrefix(ln, "fatal error:") {
				first = ln
				break
			}
		}
		return true, fmt.Sprintf("process crashed (%v): %s", err, first)
	}
	return false, ""
}

const cliTimeoutMark = "did not return within"

type cappedBuf struct{ b bytes.Buffer }

func (w *cappedBuf) Write(p []byte) (int, error) {
	if w.b.Len() < 1<<20 {
		w.b.Write(p)
	}
	return len(p), nil
}
func (w *cappedBuf) String() string { return w.b.String() }

func argvSafe(cs *Case) bool {
	for _, x := range cs.Ctxs[:min(1, len(cs.Ctxs))] {
		a := x.build()
		for _, e := range a.Elements {
			if strings.ContainsRune(e, 0) {
				return false
			}
		}
		for k, v := range a.Keys {
			if strings.ContainsRune(k+v, 0) {
				return false
			}
		}
	}
	return true
}

// cliSpotChecks (shard 0): (1) every pinned witness is also given to the real
// program, to confirm that an in-process panic is a crash of `rare` (and that
// no witness crashes the program only); (2) the cases that cannot be run
// in-process because their failure mode is fatal (unbounded allocation).
func cliSpotChecks(c *run.Ctx, pinnedPanicked []bool) {
	if c.RareBin == "" {
		c.Note("no rare binary: CLI spot checks skipped")
		return
	}
	for i, cs := range pinnedCases() {
		if !argvSafe(cs) || strings.Contains(unb64(cs.T), "{@for a 1 b}") {
			continue
		}
		// in-process outcome of the pinned pass at process start (re-running here would see a used sub-context pool)
		inPanicked := i < len(pinnedPanicked) && pinnedPanicked[i]
		cli := *cs
		cli.Kind = "cli"
		cli.CliSecs = 600
		crashed, detail := runCli(c, &cli)
		switch {
		case crashed && strings.HasPrefix(detail, cliTimeoutMark):
			// these witnesses finish in milliseconds or panic at once: a timeout says the machine is overloaded,
			// nothing about rare (the in-process verdict stands; the spot check is only a confirmation)
			c.Note("CLI spot check timed out (overloaded machine?), skipped: " + cs.Show)
		case crashed && inPanicked:
			c.Count("cli_crash_confirms_inprocess_panic", 1)
		case crashed:
			c.Violation("cli-crash:"+run.Hash64(cs.T), fmt.Sprintf("`rare expression` on template %s: %s (no panic in-process)", cs.Show, detail), &cli)
		case inPanicked:
			c.Note("in-process panic not seen as a CLI crash for " + cs.Show)
		default:
			c.Count("cli_ok", 1)
		}
	}
	for _, w := range fatalWitnesses() {
		crashed, detail := runCli(c, w.cs)
		if crashed {
			c.Violation(w.fp, fmt.Sprintf("`rare expression` on template %s: expected %s; observed: %s", w.cs.Show, w.expect, detail), w.cs)
		} else {
			c.Count("cli_ok", 1)
		}
	}
}

type fatalWitness struct {
	fp     string
	expect string
	cs     *Case
}

// Witnesses whose failure mode kills the process (cannot be recovered
// in-process): run only through the CLI, under a 1.5 GiB address-space limit.
func fatalWitnesses() []fatalWitness {
	mk := func(t string) *Case {
		cs := newCase("cli", t, mkCtx(nil, nil))
		cs.CliVmemKB = 1536 * 1024
		cs.CliSecs = 120
		return cs
	}
	return []fatalWitness{
		{fpRangeOverflow, "the 4-element array [9223372036854775800 … 9223372036854775806]", mk(`{@range 9223372036854775800 9223372036854775807 2}`)},
		{fpRangeOverflow, "the 2-element array [5, -9223372036854775802]", mk(`{@range 5 -9223372036854775808 -9223372036854775807}`)},
	}
}
