package p17

import (
	"fmt"
	"os"
	"strconv"
	"strings"
	"sync"
	"time"

	"verifharness/internal/run"
)

var trace = os.Getenv("P17_TRACE") != ""

var allKnown = []string{fpSplitMulti, fpSliceBeyond, fpForKey, fpSubNeg, fpForLeadEmpty}

func avoidSet(c *run.Ctx) map[string]bool {
	m := map[string]bool{}
	for _, f := range allKnown {
		if c.KnownActive(f) {
			m[f] = true
		}
	}
	return m
}

func grp(c *run.Ctx, fam string, from, count int) *Case {
	return &Case{Kind: "group", Fam: fam, From: from, Count: count, Seed: c.Seed, Tier: c.Tier}
}

func stop(c *run.Ctx) bool { return c.Violations() >= 6 }

// ---------------------------------------------------------------- random templates

const groupSize = 64

func random(c *run.Ctx, dom string, n int) {
	for g0 := 0; g0 < n; g0 += groupSize {
		if !c.Mine(g0 / groupSize) {
			continue
		}
		cnt := groupSize
		if g0+cnt > n {
			cnt = n - g0
		}
		c.Begin(grp(c, dom, g0, cnt), 180*time.Second)
		randomGroup(c, dom, g0, cnt)
		c.End()
		if stop(c) {
			return
		}
	}
}

func randomGroup(c *run.Ctx, dom string, from, count int) {
	av := avoidSet(c)
	for i := from; i < from+count; i++ {
		cs := genCase(c, c.Rand("rand", dom, i), dom, av)
		if cs == nil {
			c.Count("unrenderable", 1)
			continue
		}
		if trace {
			t, _ := renderSeq(cs.AST)
			fmt.Fprintf(os.Stderr, "case %s %d: %s\n", dom, i, t)
		}
		c.Evals(1)
		c.Count("cases_"+dom, 1)
		if i < 3 {
			t, _ := renderSeq(cs.AST)
			c.Sample(map[string]any{"family": "random-" + dom, "template": t, "context": ctxString(&cs.Ctxs[0])})
		}
		runEval(c, cs, dom, !c.Thorough() || i%4 == 0)
	}
}

func genCase(c *run.Ctx, r *run.Rand, dom string, av map[string]bool) *Case {
	g := &gen{r: r, dom: dom, thorough: c.Thorough(), avoid: av}
	g.delim = g.pickDelim(true)
	if dom == "int" {
		for strings.ContainsAny(g.delim, "0123456789-x") {
			g.delim = g.pickDelim(true)
		}
	}
	for try := 0; try < 8; try++ {
		ast := g.template(r.Range(1, 3))
		if _, err := renderSeq(ast); err != nil {
			continue
		}
		cs := &Case{Kind: "eval", AST: ast, Opt: r.Intn(4) != 0}
		nc := 2
		if c.Thorough() {
			nc = 3
		}
		for k := 0; k < nc; k++ {
			cs.Ctxs = append(cs.Ctxs, g.ctx(k))
		}
		return cs
	}
	return nil
}

// ---------------------------------------------------------------- index sweep (@select / @slice)

func indexPatterns(c *run.Ctx) [][]string {
	maxN := c.N(8, 14)
	var out [][]string
	letters := []string{"a", "b", "c", "d", "e", "f", "g", "h", "i", "j", "k", "l", "m", "n"}
	for n := 0; n <= maxN; n++ {
		out = append(out, append([]string{}, letters[:n]...))
		if n > 0 {
			out = append(out, make([]string, n)) // all empty
			l := append([]string{}, letters[:n]...)
			l[0] = ""
			l[n-1] = ""
			out = append(out, l)
			if n > 2 {
				l2 := append([]string{}, letters[:n]...)
				l2[n/2] = ""
				l2[1] = l2[0] // a repeated element
				out = append(out, l2)
			}
		}
		for k := 0; k < c.N(2, 6); k++ {
			g := &gen{r: c.Rand("indexpat", n, k), dom: "str", delim: ","}
			l := make([]string, n)
			for i := range l {
				l[i] = g.strVal()
			}
			out = append(out, l)
		}
	}
	return out
}

func sweepIndex(c *run.Ctx) {
	pats := indexPatterns(c)
	for pi := range pats {
		if !c.Mine(pi) {
			continue
		}
		c.Begin(grp(c, "index", pi, 1), 180*time.Second)
		sweepIndexOne(c, pi)
		c.End()
		if stop(c) {
			return
		}
	}
}

func sweepIndexOne(c *run.Ctx, pi int) {
	pats := indexPatterns(c)
	if pi < 0 || pi >= len(pats) {
		return
	}
	l := pats[pi]
	n := len(l)
	e := strings.Join(l, nul)
	cx := CtxSpec{El: [][]byte{[]byte(e)}, Keys: map[string][]byte{"list": []byte(e)}}
	type variant struct {
		name string
		node *Node
	}
	vars := []variant{{"match", mt(0)}, {"key", key("list")}}
	allSafe := n > 0
	for _, x := range l {
		if !safeLit(x) {
			allSafe = false
		}
	}
	if allSafe {
		a := make([]Arg, n)
		for i, x := range l {
			a[i] = la(x)
		}
		vars = append(vars, variant{"literal", call("@", a...)})
	}
	if pi < 2 {
		c.Sample(map[string]any{"family": "index-sweep", "list": l, "note": "@select idx and @slice start/len swept over -(n+3)..n+3 for every list source"})
	}
	for vi, v := range vars {
		opt := (pi+vi)%2 == 0
		for idx := -(n + 3); idx <= n+3; idx++ {
			cs := &Case{Kind: "eval", AST: []*Node{call("@select", arg(v.node), ia(idx))}, Ctxs: []CtxSpec{cx}, Opt: opt}
			c.Evals(1)
			runEval(c, cs, "select", true)
		}
		for start := -(n + 3); start <= n+3; start++ {
			for ln := -3; ln <= n+3; ln++ {
				a := []Arg{arg(v.node), ia(start)}
				if ln >= -2 { // ln == -3 stands for "no length argument"
					a = append(a, ia(ln))
				}
				cs := &Case{Kind: "slice", AST: []*Node{call("@slice", a...)}, Ctxs: []CtxSpec{cx}, Opt: opt}
				c.Evals(1)
				runSliceCase(c, cs)
			}
		}
		if stop(c) {
			return
		}
	}
}

// runSliceCase judges one {@slice <list> start [len]}: exact inside the list,
// "a contiguous sub-list" when the request leaves it.
func runSliceCase(c *run.Ctx, cs *Case) bool {
	if len(cs.AST) != 1 || cs.AST[0].K != "call" || cs.AST[0].S != "@slice" || len(cs.Ctxs) != 1 {
		c.Inconclusive("malformed slice case")
		return true
	}
	n := cs.AST[0]
	tpl, err := renderSeq(cs.AST)
	if err != nil {
		c.Count("unrenderable", 1)
		return true
	}
	cs.Tpl = tpl
	cx := &cs.Ctxs[0]
	lc, _, why := evalRef(n.A[0].P, cx)
	if why != "" || len(lc) != 1 {
		c.Count("abstained", 1)
		return true
	}
	start, ok1 := staticInt(n.A[1])
	hasLen := len(n.A) == 3
	ln, ok2 := 0, true
	if hasLen {
		ln, ok2 = staticInt(n.A[2])
	}
	if !ok1 || !ok2 {
		c.Inconclusive("malformed slice case")
		return true
	}
	flags := map[string]bool{}
	want, exact := refSlice(lc[0], start, hasLen, ln, flags)
	fl := flagList(flags)
	for _, f := range fl {
		if c.KnownActive(f) {
			c.Count("skipped_known_class", 1)
			return true
		}
	}
	hash := run.Hash64(tpl, ctxString(cx))
	ck := compile(tpl, cs.Opt)
	if ck.panicked {
		c.Violation(classFP(fl, "panic-compile:"+hash), fmt.Sprintf("compiling %s panicked: %v\n%s", run.Q(tpl), ck.pval, ck.stack), cs)
		return false
	}
	if ck.err != "" {
		if !ck.arrayErr {
			c.Count("compile_error_skipped", 1)
			return true
		}
		c.Violation(classFP(fl, "compile-error:"+hash), fmt.Sprintf("documented-valid template %s does not compile: %s", run.Q(tpl), ck.err), cs)
		return false
	}
	var got string
	if p, pv, st := run.Guard(func() { got = ck.kb.BuildKey(mkCtx(cx)) }); p {
		c.Violation(classFP(fl, "panic:"+hash), fmt.Sprintf("evaluating %s on %s panicked: %v\n%s", run.Q(tpl), ctxString(cx), pv, st), cs)
		return false
	}
	c.Count("comparisons", 1)
	c.Count("helper_@slice", 1)
	if strings.Contains(lc[0], nul) {
		c.Nontrivial(tpl, ctxString(cx))
	}
	if exact {
		c.Count("cmp_slice_exact", 1)
		if got != want {
			c.Violation(classFP(fl, "slice:"+hash), fmt.Sprintf("template %s (optimize=%v) on %s: expected %s, observed %s",
				run.Q(tpl), cs.Opt, ctxString(cx), run.Q(want), run.Q(got)), cs)
			return false
		}
		return true
	}
	c.Count("cmp_slice_sublist", 1)
	if !isSubList(got, lc[0]) {
		c.Violation(classFP(fl, "slice-sublist:"+hash), fmt.Sprintf("template %s (optimize=%v) on %s: out-of-range slice must still be a contiguous sub-list of the array (no separator that does not delimit an element), observed %s",
			run.Q(tpl), cs.Opt, ctxString(cx), run.Q(got)), cs)
		return false
	}
	return true
}

// ---------------------------------------------------------------- @split / @join sweep

func allDelims() []string { return append(append([]string{}, delimsSingle...), delimsMulti...) }

func sweepSplitJoin(c *run.Ctx) {
	groups := len(allDelims()) * c.N(4, 40)
	for gi := 0; gi < groups; gi++ {
		if !c.Mine(gi) {
			continue
		}
		c.Begin(grp(c, "splitjoin", gi, 1), 180*time.Second)
		sweepSplitJoinOne(c, gi)
		c.End()
		if stop(c) {
			return
		}
	}
}

func sweepSplitJoinOne(c *run.Ctx, gi int) {
	ds := allDelims()
	d := ds[gi%len(ds)]
	for j := 0; j < 20; j++ {
		r := c.Rand("splitjoin", gi, j)
		g := &gen{r: r, dom: "str", delim: d, thorough: c.Thorough()}
		n := r.Range(0, 8)
		if r.Intn(12) == 0 {
			n = r.Range(9, 40)
		}
		el := make([]string, n)
		for i := range el {
			el[i] = g.strVal()
			if r.Intn(5) == 0 {
				el[i] = ""
			}
		}
		s := strings.Join(el, d)
		cx := CtxSpec{El: [][]byte{[]byte(s), []byte(strings.Join(el, nul))}}
		d2 := ds[r.Intn(len(ds))]
		split0 := call("@split", arg(mt(0)), la(d))
		tpls := [][]*Node{
			{split0},
			{call("@join", arg(split0), la(d))},
			{call("@join", arg(mt(1)), la(d))},
			{call("@split", arg(call("@join", arg(mt(1)), la(d))), la(d))},
			{call("@len", arg(split0))},
			{call("@select", arg(split0), ia(r.Range(-n-1, n+1)))},
			{call("@join", arg(split0), la(d2))},
			{call("@join", arg(call("@map", arg(split0), qarg(lit("<"), mt(0), lit(">")))), la(d))},
			{call("@len", arg(call("@split", arg(call("@join", arg(mt(1)), la(d))), la(d))))},
			{call("@filter", arg(split0), arg(mt(0)))},
		}
		if d == " " {
			tpls = append(tpls, []*Node{call("@split", arg(mt(0)))}, []*Node{call("@join", arg(mt(1)))},
				[]*Node{call("@join", arg(call("@split", arg(mt(0)))))})
		}
		if gi < 2 && j == 0 {
			c.Sample(map[string]any{"family": "split-join", "delimiter": d, "string": s, "elements": el})
		}
		for ti, t := range tpls {
			cs := &Case{Kind: "eval", AST: t, Ctxs: []CtxSpec{cx}, Opt: (j+ti)%3 != 0}
			c.Evals(1)
			runEval(c, cs, "splitjoin", true)
		}
	}
}

// ---------------------------------------------------------------- @range sweep

func sweepRange(c *run.Ctx) {
	for si := 0; si <= 14; si++ {
		if !c.Mine(si) {
			continue
		}
		c.Begin(grp(c, "range", si, 1), 180*time.Second)
		sweepRangeOne(c, si)
		c.End()
		if stop(c) {
			return
		}
	}
}

func sweepRangeOne(c *run.Ctx, si int) {
	one := func(start, stop, incr int) {
		cx := CtxSpec{El: [][]byte{[]byte(strconv.Itoa(start)), []byte(strconv.Itoa(stop)), []byte(strconv.Itoa(incr))}}
		tpls := [][]*Node{
			{call("@range", ia(start), ia(stop), ia(incr))},
			{call("@range", arg(mt(0)), arg(mt(1)), arg(mt(2)))},
			{call("@len", arg(call("@range", arg(mt(0)), ia(stop), arg(mt(2)))))},
		}
		if incr == 1 {
			tpls = append(tpls, []*Node{call("@range", ia(start), arg(mt(1)))}, []*Node{call("@range", arg(mt(0)), ia(stop))})
			if start == 0 {
				tpls = append(tpls, []*Node{call("@range", ia(stop))}, []*Node{call("@range", arg(mt(1)))})
			}
		}
		for ti, t := range tpls {
			cs := &Case{Kind: "eval", AST: t, Ctxs: []CtxSpec{cx}, Opt: ti%2 == 0}
			c.Evals(1)
			runEval(c, cs, "range", true)
		}
	}
	if si >= 13 {
		big := [][3]int{{0, 2000, 1}, {5, 2000, 7}, {2000, 0, -3}, {-1000, 1000, 1}, {0, 1999, 1999}, {1, 0, -1}}
		if si == 14 {
			big = [][3]int{{-3, 1500, 2}, {100, -100, -1}, {7, 8, 1}, {0, 0, 1}, {0, 0, -1}, {3, 3, 0}}
		}
		for _, b := range big {
			one(b[0], b[1], b[2])
		}
		return
	}
	start := si - 6
	if si == 0 {
		c.Sample(map[string]any{"family": "range-sweep", "note": "start,stop in -6..6, incr in -4..4; literal and context operands; 1/2/3-argument forms"})
	}
	for stop := -6; stop <= 6; stop++ {
		for incr := -4; incr <= 4; incr++ {
			one(start, stop, incr)
		}
	}
}

// ---------------------------------------------------------------- concurrent evaluators

func concurrent(c *run.Ctx, n int) {
	for i := 0; i < n; i++ {
		if !c.Mine(i) {
			continue
		}
		c.Begin(grp(c, "conc", i, 1), 180*time.Second)
		concGroup(c, i, 1)
		c.End()
		if stop(c) {
			return
		}
	}
}

func concGroup(c *run.Ctx, from, count int) {
	av := avoidSet(c)
	for i := from; i < from+count; i++ {
		r := c.Rand("conc", i)
		dom := "str"
		if r.Bool() {
			dom = "int"
		}
		g := &gen{r: r, dom: dom, thorough: c.Thorough(), avoid: av}
		g.delim = ","
		var cs *Case
		for try := 0; try < 8 && cs == nil; try++ {
			ast := concTemplate(g)
			if _, err := renderSeq(ast); err != nil {
				continue
			}
			cs = &Case{Kind: "conc", AST: ast, Opt: r.Intn(3) != 0, G: r.Range(1, 16), Iter: 150}
			if c.Flavour == "race" {
				cs.Iter = 60
			}
			for k := 0; k < cs.G; k++ {
				cs.Ctxs = append(cs.Ctxs, g.ctx(k))
			}
		}
		if cs == nil {
			c.Count("unrenderable", 1)
			continue
		}
		if i < 2 {
			t, _ := renderSeq(cs.AST)
			c.Sample(map[string]any{"family": "concurrent", "template": t, "goroutines": cs.G, "iterations": cs.Iter})
		}
		runConc(c, cs)
	}
}

// concTemplate: helpers whose sub-expressions read named keys of the enclosing
// match, so that a sub-context leaked through the shared pool changes the result.
func concTemplate(g *gen) []*Node {
	g.budget = 30
	shapes := g.r.Range(1, 3)
	var a []Arg
	for s := 0; s < shapes; s++ {
		var n *Node
		l := func() Arg { return arg(g.leafList(0, false)) }
		switch g.r.Intn(7) {
		case 0:
			if g.dom == "int" {
				n = call("@map", l(), g.subArg(arg(call("sumi", arg(mt(0)), arg(key("n"))))))
			} else {
				n = call("@map", l(), g.subArg(Arg{P: []*Node{mt(0), lit("@"), key("who")}}))
			}
		case 1:
			n = call("@filter", l(), g.subArg(arg(call("neq", arg(mt(0)), arg(key("k"))))))
		case 2:
			if g.dom == "int" {
				n = call("@reduce", l(), g.subArg(arg(call("sumi", arg(mt(0)), arg(mt(1)), arg(key("n"))))))
			} else {
				n = call("@reduce", l(), g.subArg(Arg{P: []*Node{mt(0), key("who"), mt(1)}}))
			}
		case 3:
			if g.keyOK(true) {
				bound := arg(call("and", arg(call("lt", arg(mt(1)), ia(9))), arg(call("lt", arg(mt(1)), arg(key("n"))))))
				if g.dom == "int" {
					n = call("@for", ia(g.r.Range(0, 5)), bound, arg(call("sumi", arg(mt(0)), arg(key("n")))))
				} else {
					n = call("@for", la("s"), bound, Arg{P: []*Node{mt(0), key("who")}})
				}
			} else {
				n = call("@map", arg(g.forLoop(1, 0, false)), g.subArg(Arg{P: []*Node{key("who"), mt(0)}}))
			}
		case 4: // nested sub-contexts, each reading the outer keys
			inner := call("@map", arg(call("@", arg(mt(0)), arg(key("who")))), Arg{P: []*Node{mt(0), lit("/"), key("who")}})
			n = call("@map", l(), arg(call("@join", arg(inner), la("+"))))
		case 5:
			n = call("@map", arg(call("@filter", l(), arg(call("neq", arg(mt(0)), arg(key("k")))))), Arg{P: []*Node{key("who"), lit(":"), mt(0)}})
		default:
			n = g.list_(3, 0, false)
		}
		a = append(a, arg(n))
	}
	if len(a) == 1 {
		return a[0].P
	}
	return []*Node{call("$", a...)}
}

func runConc(c *run.Ctx, cs *Case) bool {
	tpl, err := renderSeq(cs.AST)
	if err != nil || len(cs.Ctxs) == 0 {
		c.Count("unrenderable", 1)
		return true
	}
	cs.Tpl = tpl
	flags := map[string]bool{}
	cands := make([][]string, len(cs.Ctxs))
	for i := range cs.Ctxs {
		cd, r, why, big := evalRefBig(cs.AST, &cs.Ctxs[i])
		if big {
			c.Count("skipped_too_big", 1)
			return true
		}
		for f := range r.flags {
			flags[f] = true
		}
		if why == "" {
			cands[i] = cd
		}
	}
	fl := flagList(flags)
	for _, f := range fl {
		if c.KnownActive(f) {
			c.Count("skipped_known_class", 1)
			return true
		}
	}
	hash := run.Hash64(tpl, ctxString(&cs.Ctxs[0]), fmt.Sprint(cs.G))
	ck := compile(tpl, cs.Opt)
	if ck.panicked {
		c.Violation(classFP(fl, "panic-compile:"+hash), fmt.Sprintf("compiling %s panicked: %v\n%s", run.Q(tpl), ck.pval, ck.stack), cs)
		return false
	}
	if ck.err != "" {
		c.Count("compile_error_conc", 1)
		return true // judged by the sequential families
	}
	type fail struct {
		g, it int
		got   string
		pan   string
	}
	var mu sync.Mutex
	var first *fail
	var cmp int64
	var wg sync.WaitGroup
	startGate := make(chan struct{})
	for gi := range cs.Ctxs {
		wg.Add(1)
		go func(gi int) {
			defer wg.Done()
			h := mkCtx(&cs.Ctxs[gi])
			<-startGate
			local := int64(0)
			for it := 0; it < cs.Iter; it++ {
				var got string
				p, pv, st := run.Guard(func() { got = ck.kb.BuildKey(h) })
				var f *fail
				if p {
					f = &fail{g: gi, it: it, pan: fmt.Sprintf("%v\n%s", pv, st)}
				} else if cands[gi] != nil {
					local++
					if !contains(cands[gi], got) {
						f = &fail{g: gi, it: it, got: got}
					}
				}
				if f != nil {
					mu.Lock()
					if first == nil {
						first = f
					}
					mu.Unlock()
					break
				}
				mu.Lock()
				done := first != nil
				mu.Unlock()
				if done {
					break
				}
			}
			mu.Lock()
			cmp += local
			mu.Unlock()
		}(gi)
	}
	close(startGate)
	wg.Wait()
	c.Evals(len(cs.Ctxs) * cs.Iter)
	c.Count("comparisons", cmp)
	c.Count("cmp_concurrent", cmp)
	c.Count("conc_cases", 1)
	c.Max("max_goroutines", int64(len(cs.Ctxs)))
	c.Nontrivial(tpl, ctxString(&cs.Ctxs[0]), "conc")
	if first == nil {
		return true
	}
	cx := &cs.Ctxs[first.g]
	if first.pan != "" {
		c.Violation(classFP(fl, "panic:"+hash), fmt.Sprintf("shared expression %s, goroutine %d of %d, iteration %d on %s panicked: %s",
			run.Q(tpl), first.g, len(cs.Ctxs), first.it, ctxString(cx), first.pan), cs)
		return false
	}
	leak := ""
	for j := range cs.Ctxs {
		if j != first.g && cands[j] != nil && contains(cands[j], first.got) {
			leak = fmt.Sprintf(" — this is the expected result of goroutine %d's match: a sub-context leaked between evaluations", j)
			break
		}
	}
	c.Violation(classFP(fl, "conc:"+hash), fmt.Sprintf("shared expression %s (optimize=%v), goroutine %d of %d, iteration %d on %s: expected %s, observed %s%s",
		run.Q(tpl), cs.Opt, first.g, len(cs.Ctxs), first.it, ctxString(cx), candString(cands[first.g]), run.Q(first.got), leak), cs)
	return false
}
