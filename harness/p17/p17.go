// Package p17 decides C17: the array helpers of rare expressions (@split,
// @join, @len, @map, @filter, @reduce, @select, @slice, @in, @range, @for,
// {$ ..}/{@ ..}) obey list semantics over NUL-separated strings.
//
// The real helpers (rare/pkg/expressions/stdlib) are compiled and evaluated on
// generated templates and contexts; every result is compared with the
// reference list model of ref.go.
package p17

import (
	"encoding/json"
	"fmt"
	"sort"
	"strings"
	"time"

	"rare/pkg/expressions"
	"rare/pkg/expressions/stdlib"

	"verifharness/internal/reg"
	"verifharness/internal/run"
)

func init() { reg.Register("C17", Run) }

// CtxSpec is one evaluation context (numbered matches and named keys).
type CtxSpec struct {
	El   [][]byte          `json:"el"`
	Keys map[string][]byte `json:"keys,omitempty"`
}

// Case is one replayable unit.
type Case struct {
	Kind string    `json:"kind"` // eval | slice | conc | pin | group
	Name string    `json:"name,omitempty"`
	AST  []*Node   `json:"ast,omitempty"`
	Tpl  string    `json:"template,omitempty"` // informational (rendered from AST)
	Opt  bool      `json:"opt"`
	Ctxs []CtxSpec `json:"ctxs,omitempty"`
	G    int       `json:"g,omitempty"`
	Iter int       `json:"iter,omitempty"`
	// group descriptor (journal entry for a batch of generated cases)
	Fam   string `json:"fam,omitempty"`
	From  int    `json:"from,omitempty"`
	Count int    `json:"count,omitempty"`
	Seed  uint64 `json:"seed,omitempty"`
	Tier  string `json:"tier,omitempty"`
}

// hctx is the harness's own context: out-of-range matches and unknown keys are "".
type hctx struct {
	el   []string
	keys map[string]string
}

func (h *hctx) GetMatch(i int) string {
	if i >= 0 && i < len(h.el) {
		return h.el[i]
	}
	return ""
}
func (h *hctx) GetKey(k string) string { return h.keys[k] }

func mkCtx(cx *CtxSpec) *hctx {
	h := &hctx{keys: map[string]string{}}
	for _, e := range cx.El {
		h.el = append(h.el, string(e))
	}
	for k, v := range cx.Keys {
		h.keys[k] = string(v)
	}
	return h
}

func ctxString(cx *CtxSpec) string {
	var sb strings.Builder
	sb.WriteString("matches=[")
	for i, e := range cx.El {
		if i > 0 {
			sb.WriteString(", ")
		}
		sb.WriteString(run.Q(string(e)))
	}
	sb.WriteString("] keys={")
	ks := make([]string, 0, len(cx.Keys))
	for k := range cx.Keys {
		ks = append(ks, k)
	}
	sort.Strings(ks)
	for i, k := range ks {
		if i > 0 {
			sb.WriteString(", ")
		}
		sb.WriteString(k + ":" + run.Q(string(cx.Keys[k])))
	}
	sb.WriteString("}")
	return sb.String()
}

func candString(c []string) string {
	q := make([]string, len(c))
	for i, x := range c {
		q[i] = run.Q(x)
	}
	if len(q) == 1 {
		return q[0]
	}
	return "one of {" + strings.Join(q, ", ") + "}"
}

func contains(c []string, s string) bool {
	for _, x := range c {
		if x == s {
			return true
		}
	}
	return false
}

type compiled struct {
	kb       *expressions.CompiledKeyBuilder
	err      string
	arrayErr bool // a compile error located at an array helper call
	panicked bool
	pval     any
	stack    string
}

func compile(tpl string, opt bool) *compiled {
	out := &compiled{}
	out.panicked, out.pval, out.stack = run.Guard(func() {
		kb, errs := stdlib.NewStdKeyBuilderEx(opt).Compile(tpl)
		out.kb = kb
		if errs != nil {
			out.err = errs.Error()
			for _, e := range errs.Errors {
				// Context is the failing statement without braces: "<helper> args..."
				fn := strings.TrimSpace(e.Context)
				if i := strings.IndexAny(fn, " \t"); i >= 0 {
					fn = fn[:i]
				}
				if strings.HasPrefix(fn, "@") || fn == "$" {
					out.arrayErr = true
				}
			}
		}
	})
	return out
}

func flagList(m map[string]bool) []string {
	var l []string
	for k := range m {
		l = append(l, k)
	}
	sort.Strings(l)
	return l
}

// classFP: the fingerprint of a failing generated case is always its own
// (family + hash). Only the pinned witnesses report under the fingerprint of a
// recorded input class, so that an unrelated failure whose input merely lies in
// such a class is never mislabelled; the class is named in the message.
func classFP(flags []string, dflt string) string { return dflt }

func classNote(flags []string) string {
	if len(flags) == 0 {
		return ""
	}
	return " [input lies in the recorded class(es) " + strings.Join(flags, ", ") + "]"
}

type judged struct {
	cands []string
	why   string // abstained
}

// runEval executes one eval case. It returns false when a violation was reported.
func runEval(c *run.Ctx, cs *Case, fam string, nontrivSample bool) bool {
	tpl, err := renderSeq(cs.AST)
	if err != nil {
		c.Count("unrenderable", 1)
		return true
	}
	cs.Tpl = tpl
	flags := map[string]bool{}
	js := make([]judged, len(cs.Ctxs))
	anyDefined := false
	maxList := 0
	helpers := map[string]int{}
	for i := range cs.Ctxs {
		cands, r, why, big := evalRefBig(cs.AST, &cs.Ctxs[i])
		if big {
			c.Count("skipped_too_big", 1)
			return true
		}
		js[i] = judged{cands, why}
		for f := range r.flags {
			flags[f] = true
		}
		if why == "" {
			anyDefined = true
			if r.maxList > maxList {
				maxList = r.maxList
			}
		}
		if i == 0 {
			helpers = r.helpers
		}
	}
	fl := flagList(flags)
	for _, f := range fl {
		if c.KnownActive(f) {
			c.Count("skipped_known_class", 1)
			c.Count("skipped_"+f, 1)
			return true
		}
	}
	hash := run.Hash64(tpl, fmt.Sprint(cs.Opt), ctxString(&cs.Ctxs[0]))
	ck := compile(tpl, cs.Opt)
	if ck.panicked {
		c.Violation(classFP(fl, "panic-compile:"+hash),
			fmt.Sprintf("compiling %s panicked: %v\n%s", run.Q(tpl), ck.pval, ck.stack), cs)
		return false
	}
	if ck.err != "" {
		// A compile error raised by a scalar helper (e.g. a constant argument of the
		// wrong type in a branch the reference never evaluates) is not this
		// property's business; one raised by an array helper on a template the
		// reference can evaluate is.
		if !anyDefined || !ck.arrayErr {
			c.Count("compile_error_skipped", 1)
			return true
		}
		c.Violation(classFP(fl, "compile-error:"+hash),
			fmt.Sprintf("documented-valid template %s does not compile: %s", run.Q(tpl), ck.err), cs)
		return false
	}
	ok := true
	for i := range cs.Ctxs {
		cx := &cs.Ctxs[i]
		h := mkCtx(cx)
		var got string
		p, pv, st := run.Guard(func() { got = ck.kb.BuildKey(h) })
		if p {
			c.Violation(classFP(fl, "panic:"+hash),
				fmt.Sprintf("evaluating %s on %s panicked: %v\n%s", run.Q(tpl), ctxString(cx), pv, st), cs)
			return false
		}
		if js[i].why != "" {
			c.Count("abstained", 1)
			c.SetAdd("abstain_reasons", firstWords(js[i].why))
			c.Count("abst_"+firstWords(js[i].why), 1)
			continue
		}
		c.Count("comparisons", 1)
		c.Count("cmp_"+fam, 1)
		if !contains(js[i].cands, got) {
			ok = false
			c.Violation(classFP(fl, fam+":"+hash),
				fmt.Sprintf("template %s (optimize=%v) on %s: expected %s, observed %s",
					run.Q(tpl), cs.Opt, ctxString(cx), candString(js[i].cands), run.Q(got))+classNote(fl), cs)
			break
		}
	}
	for hname := range helpers {
		if strings.HasPrefix(hname, "@") || hname == "$" {
			c.Count("helper_"+hname, 1)
		}
	}
	c.Max("max_list_len", int64(maxList))
	if maxList >= 2 && nontrivSample {
		c.Nontrivial(tpl, ctxString(&cs.Ctxs[0]))
	}
	return ok
}

func firstWords(s string) string {
	if i := strings.IndexAny(s, ":\""); i > 0 {
		s = s[:i]
	}
	if len(s) > 48 {
		s = s[:48]
	}
	return strings.TrimSpace(s)
}

// ---------------------------------------------------------------- Run

func Run(c *run.Ctx) {
	if c.Replay != nil {
		var cs Case
		if err := json.Unmarshal(c.Replay, &cs); err != nil {
			c.Inconclusive("bad replay: " + err.Error())
			return
		}
		c.Begin(&cs, 120*time.Second)
		replay(c, &cs)
		c.End()
		return
	}
	idx := 0
	next := func() int { idx++; return idx - 1 }
	pins(c, next)
	if c.Flavour == "race" {
		// the race build exists for the shared-expression workload; a thin slice
		// of the sequential families keeps the instrumented helpers exercised
		concurrent(c, c.N(60, 400))
		random(c, "int", 4000)
		random(c, "str", 4000)
		return
	}
	sweepIndex(c)
	sweepSplitJoin(c)
	sweepRange(c)
	random(c, "int", c.N(150000, 1500000))
	random(c, "str", c.N(150000, 1500000))
	concurrent(c, c.N(160, 1600))
	pipeline(c, c.N(130, 1300), next)
}

func replay(c *run.Ctx, cs *Case) {
	switch cs.Kind {
	case "eval":
		runEval(c, cs, "replay", false)
	case "slice":
		runSliceCase(c, cs)
	case "conc":
		runConc(c, cs)
	case "pipe":
		pipelineOne(c, cs)
	case "pin":
		for _, p := range pinList() {
			if p.name == cs.Name {
				p.f(c)
			}
		}
	case "group":
		c.Seed = cs.Seed
		if cs.Tier != "" {
			c.Tier = cs.Tier
		}
		switch cs.Fam {
		case "int", "str":
			randomGroup(c, cs.Fam, cs.From, cs.Count)
		case "conc":
			concGroup(c, cs.From, cs.Count)
		case "index":
			sweepIndexOne(c, cs.From)
		case "splitjoin":
			sweepSplitJoinOne(c, cs.From)
		case "range":
			sweepRangeOne(c, cs.From)
		}
	default:
		c.Inconclusive("unknown replay kind " + cs.Kind)
	}
}
