package p17

import (
	"fmt"
	"strings"
	"time"

	"verifharness/internal/run"
)

// Pinned cases: every example of docs/usage/expressions.md "Ranges (Arrays)"
// with the result the documentation prints, and one witness per recorded
// defect (they stay as regression cases once the defect is repaired).

type pin struct {
	name string
	f    func(c *run.Ctx)
}

func enc(l ...string) string { return strings.Join(l, nul) }

func sctx(keys map[string]string, el ...string) *CtxSpec {
	cx := &CtxSpec{Keys: map[string][]byte{}}
	for _, e := range el {
		cx.El = append(cx.El, []byte(e))
	}
	for k, v := range keys {
		cx.Keys[k] = []byte(v)
	}
	return cx
}

// literal evaluates a literal template on one context under both builders and
// checks the result with accept; a panic is always a violation.
func literal(c *run.Ctx, name, fp, tpl string, cx *CtxSpec, want string, accept func(got string) bool) {
	for _, opt := range []bool{true, false} {
		ck := compile(tpl, opt)
		cs := &Case{Kind: "pin", Name: name, Tpl: tpl}
		if ck.panicked {
			c.Violation(fp, fmt.Sprintf("compiling %s panicked: %v\n%s", run.Q(tpl), ck.pval, ck.stack), cs)
			return
		}
		if ck.err != "" {
			c.Violation(fp, fmt.Sprintf("documented template %s does not compile: %s", run.Q(tpl), ck.err), cs)
			return
		}
		var got string
		p, pv, st := run.Guard(func() { got = ck.kb.BuildKey(mkCtx(cx)) })
		if p {
			c.Violation(fp, fmt.Sprintf("evaluating %s on %s panicked: %v\n%s", run.Q(tpl), ctxString(cx), pv, st), cs)
			return
		}
		c.Count("comparisons", 1)
		c.Count("cmp_pin", 1)
		if !accept(got) {
			c.Violation(fp, fmt.Sprintf("template %s (optimize=%v) on %s: expected %s, observed %s",
				run.Q(tpl), opt, ctxString(cx), want, run.Q(got)), cs)
			return
		}
	}
}

func exact(c *run.Ctx, name, fp, tpl string, cx *CtxSpec, want string) {
	literal(c, name, fp, tpl, cx, run.Q(want), func(g string) bool { return g == want })
}

func pinList() []pin {
	arr123 := map[string]string{"array": enc("1", "2", "3")}
	arr1234 := map[string]string{"array": enc("1", "2", "3", "4")}
	doc := func(name, tpl string, keys map[string]string, want string) pin {
		return pin{"doc:" + name, func(c *run.Ctx) { exact(c, "doc:"+name, "doc:"+name, tpl, sctx(keys), want) }}
	}
	truthyPin := func(name, tpl string, want bool) pin {
		return pin{"doc:" + name, func(c *run.Ctx) {
			literal(c, "doc:"+name, "doc:"+name, tpl, sctx(nil), fmt.Sprintf("truthy=%v", want),
				func(g string) bool { return (strings.TrimSpace(g) != "") == want })
		}}
	}
	return []pin{
		doc("map", `{@map {array} "{multi {0} 2}"}`, arr123, enc("2", "4", "6")),
		doc("reduce", `{@reduce {array} "{sumi {0} {1}}"}`, arr123, "6"),
		doc("filter", `{@filter {array} "{isnum {0}}"}`, map[string]string{"array": enc("1", "abc", "23", "efg")}, enc("1", "23")),
		doc("slice-1", `{@slice {array} 1}`, arr1234, enc("2", "3", "4")),
		doc("slice-1-1", `{@slice {array} 1 1}`, arr1234, enc("2")),
		doc("slice-neg2", `{@slice {array} -2}`, arr1234, enc("3", "4")),
		doc("slice-neg2-1", `{@slice {array} -2 1}`, arr1234, enc("3")),
		doc("range-5", `{@range 5}`, nil, enc("0", "1", "2", "3", "4")),
		doc("range-1-10-2", `{@range 1 10 2}`, nil, enc("1", "3", "5", "7", "9")),
		doc("range-incr0", `{@range 1 10 0}`, nil, "<VALUE>"),
		doc("for-count", `{@for 0 {lt {0} 5} {sumi {0} 1}}`, nil, enc("0", "1", "2", "3", "4")),
		doc("for-double", `{@for 1 {lt {1} 5} {sumi {0} {0}}}`, nil, enc("1", "2", "4", "8", "16")),
		doc("len-empty", `{@len ""}`, nil, "0"),
		doc("len-literal", `{@len abc}`, nil, "1"),
		doc("len-3", `{@len {array}}`, arr123, "3"),
		doc("dollar", `{$ a b c}`, nil, enc("a", "b", "c")),
		doc("at", `{@ a b c}`, nil, enc("a", "b", "c")),
		doc("split-default", `{@split "a b c"}`, nil, enc("a", "b", "c")),
		doc("join-default", `{@join {array}}`, arr123, "1 2 3"),
		doc("join-comma", `{@join {array} ", "}`, arr123, "1, 2, 3"),
		doc("select-1", `{@select {array} 1}`, arr123, "2"),
		truthyPin("in-yes", `{@in b {@ a b c}}`, true),
		truthyPin("in-no", `{@in z {@ a b c}}`, false),
		// membership, not containment of a run: a two-element list is no element of [a b c d]
		truthyPin("in-run-of-elements", `{@in {@ b c} {@ a b c d}}`, false),
		truthyPin("in-run-at-start", `{@in {$ a b} {@ a b c d}}`, false),
		truthyPin("in-run-at-end", `{@in {@ c d} {@ a b c d}}`, false),
		truthyPin("in-whole-list", `{@in {@ a b} {@ a b}}`, false),

		// ---- witnesses of recorded defects
		{"known:" + fpSplitMulti, func(c *run.Ctx) {
			exact(c, "known:"+fpSplitMulti, fpSplitMulti, `{@split {0} "::"}`, sctx(nil, "a::b::c"), enc("a", "b", "c"))
			exact(c, "known:"+fpSplitMulti, fpSplitMulti, `{@split {0} "→"}`, sctx(nil, "x→y→"), enc("x", "y", ""))
			exact(c, "known:"+fpSplitMulti, fpSplitMulti, `{@join {@split {0} ", "} ", "}`, sctx(nil, "a, b, c"), "a, b, c")
		}},
		{"known:" + fpSliceBeyond, func(c *run.Ctx) {
			l := enc("1", "2", "3")
			literal(c, "known:"+fpSliceBeyond, fpSliceBeyond, `{@slice {0} -5}`, sctx(nil, l),
				"a contiguous sub-list of [1,2,3] (no separator that does not delimit an element)",
				func(g string) bool { return isSubList(g, l) })
			literal(c, "known:"+fpSliceBeyond, fpSliceBeyond, `{@slice {0} -4 2}`, sctx(nil, l),
				"a contiguous sub-list of [1,2,3]",
				func(g string) bool { return isSubList(g, l) })
		}},
		{"known:" + fpSubNeg, func(c *run.Ctx) {
			literal(c, "known:"+fpSubNeg, fpSubNeg, `{@map {0} "{-1}"}`, sctx(nil, enc("a", "b")),
				"no panic and a list of 2 elements",
				func(g string) bool { return strings.Count(g, nul) == 1 })
		}},
		{"known:" + fpForLeadEmpty, func(c *run.Ctx) {
			exact(c, "known:"+fpForLeadEmpty, fpForLeadEmpty, `{@for "" {lt {1} 3} {0}x}`, sctx(nil), enc("", "x", "xx"))
			exact(c, "known:"+fpForLeadEmpty, fpForLeadEmpty, `{@len {@for {0} {lt {1} 4} {1}}}`, sctx(nil, ""), "4")
		}},
		{"known:" + fpForKey, pinForKey},
	}
}

// pinForKey: a named key inside @for's sub-expressions must resolve in the
// enclosing match. The pooled sub-context is first used by @map on context A,
// then @for is compiled and evaluated on context B.
func pinForKey(c *run.Ctx) {
	name := "known:" + fpForKey
	cs := &Case{Kind: "pin", Name: name, Tpl: `{@for 0 {lt {1} {n}} {sumi {0} 1}}`}
	a := sctx(map[string]string{"n": "1", "who": "A"}, enc("x", "y"))
	b := sctx(map[string]string{"n": "3", "who": "B"}, enc("x", "y"))
	for _, opt := range []bool{true, false} {
		prime := compile(`{@map {0} "{who}"}`, opt)
		if prime.panicked || prime.err != "" {
			c.Violation("doc:prime-map", fmt.Sprintf("{@map {0} \"{who}\"} does not compile: %v %s", prime.pval, prime.err), cs)
			return
		}
		var got string
		if p, pv, st := run.Guard(func() { got = prime.kb.BuildKey(mkCtx(a)) }); p {
			c.Violation("doc:prime-map", fmt.Sprintf("@map with a named key panicked: %v\n%s", pv, st), cs)
			return
		}
		c.Count("comparisons", 1)
		if got != enc("A", "A") {
			c.Violation("doc:prime-map", fmt.Sprintf("{@map {0} \"{who}\"} on [x,y] who=A: expected %q, observed %q", enc("A", "A"), got), cs)
			return
		}
		ck := compile(cs.Tpl, opt)
		if ck.panicked {
			c.Violation(fpForKey, fmt.Sprintf("compiling %s panicked (named key inside @for, sub-context parent unset): %v\n%s", run.Q(cs.Tpl), ck.pval, ck.stack), cs)
			return
		}
		if ck.err != "" {
			c.Violation(fpForKey, fmt.Sprintf("%s does not compile: %s", run.Q(cs.Tpl), ck.err), cs)
			return
		}
		p, pv, st := run.Guard(func() { got = ck.kb.BuildKey(mkCtx(b)) })
		if p {
			c.Violation(fpForKey, fmt.Sprintf("evaluating %s with n=3 panicked: %v\n%s", run.Q(cs.Tpl), pv, st), cs)
			return
		}
		c.Count("comparisons", 1)
		c.Count("cmp_pin", 1)
		if want := enc("0", "1", "2"); got != want {
			c.Violation(fpForKey, fmt.Sprintf("template %s (optimize=%v) evaluated with n=3 after @map ran with another match (n=1): expected %q, observed %q — {n} was resolved in a foreign match",
				cs.Tpl, opt, want, got), cs)
			return
		}
	}
}

func pins(c *run.Ctx, next func() int) {
	// every shard runs the pinned cases first (they are few): a regression of a
	// repaired defect is then the first thing each shard reports, under the
	// fingerprint of its class
	for _, p := range pinList() {
		next()
		c.Begin(&Case{Kind: "pin", Name: p.name}, 60*time.Second)
		p.f(c)
		c.End()
	}
}
