package p17

import (
	"errors"
	"strconv"
	"strings"
	"unicode"
)

// Node is one part of a rare expression template: literal text, a numbered
// match {i}, a named key {name}, or a helper call {fn arg arg ...}.
type Node struct {
	K string `json:"k"`           // "lit" | "m" | "key" | "call"
	S string `json:"s,omitempty"` // literal text / key name / helper name
	I int    `json:"i,omitempty"` // match index
	A []Arg  `json:"a,omitempty"` // call arguments
}

// Arg is one argument of a call: a sequence of parts (a template of its own).
type Arg struct {
	P []*Node `json:"p"`
	Q bool    `json:"q,omitempty"` // wrap in quotes although not required
}

func lit(s string) *Node             { return &Node{K: "lit", S: s} }
func mt(i int) *Node                 { return &Node{K: "m", I: i} }
func key(s string) *Node             { return &Node{K: "key", S: s} }
func call(fn string, a ...Arg) *Node { return &Node{K: "call", S: fn, A: a} }
func arg(p ...*Node) Arg             { return Arg{P: p} }
func qarg(p ...*Node) Arg            { return Arg{P: p, Q: true} }
func la(s string) Arg                { return Arg{P: []*Node{lit(s)}} }
func ia(i int) Arg                   { return la(strconv.Itoa(i)) }

var errRender = errors.New("not renderable")

// literal text the renderer accepts: no braces, backslashes, quotes or NUL
// (escaping rules are property C09's business, not this one's), valid UTF-8,
// and only ' ' / '\t' as whitespace.
func safeLit(s string) bool {
	for _, r := range s {
		switch r {
		case '{', '}', '\\', '"', 0, unicode.ReplacementChar:
			return false
		}
		if unicode.IsSpace(r) && r != ' ' && r != '\t' {
			return false
		}
	}
	return true
}

func hasSpace(s string) bool { return strings.ContainsAny(s, " \t") }

// renderSeq renders a top-level template.
func renderSeq(parts []*Node) (string, error) {
	var sb strings.Builder
	for _, p := range parts {
		s, err := renderNode(p)
		if err != nil {
			return "", err
		}
		sb.WriteString(s)
	}
	return sb.String(), nil
}

func renderNode(n *Node) (string, error) {
	switch n.K {
	case "lit":
		if !safeLit(n.S) {
			return "", errRender
		}
		return n.S, nil
	case "m":
		return "{" + strconv.Itoa(n.I) + "}", nil
	case "key":
		if n.S == "" || !safeLit(n.S) || hasSpace(n.S) {
			return "", errRender
		}
		if _, err := strconv.Atoi(n.S); err == nil {
			return "", errRender
		}
		return "{" + n.S + "}", nil
	case "call":
		if len(n.A) == 0 {
			return "", errRender // {fn} alone is a key lookup, not a call
		}
		var sb strings.Builder
		sb.WriteString("{" + n.S)
		for _, a := range n.A {
			s, err := renderArg(a)
			if err != nil {
				return "", err
			}
			sb.WriteByte(' ')
			sb.WriteString(s)
		}
		sb.WriteByte('}')
		return sb.String(), nil
	}
	return "", errRender
}

// renderArg renders one argument. It must be quoted when it is empty or has
// whitespace outside braces; a quoted argument cannot itself contain quotes
// (the tokenizer does not nest them), which the generator respects.
func renderArg(a Arg) (string, error) {
	var sb strings.Builder
	need := a.Q
	for _, p := range a.P {
		s, err := renderNode(p)
		if err != nil {
			return "", err
		}
		if p.K == "lit" && hasSpace(s) {
			need = true
		}
		sb.WriteString(s)
	}
	s := sb.String()
	if s == "" {
		need = true
	}
	if need {
		if strings.Contains(s, `"`) {
			return "", errRender
		}
		return `"` + s + `"`, nil
	}
	return s, nil
}

// hasQuote tells whether rendering a would produce a quote character.
func hasQuote(a Arg) bool {
	s, err := renderArg(Arg{P: a.P})
	return err != nil || strings.Contains(s, `"`)
}
