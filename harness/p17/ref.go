package p17

// Reference model for the array helpers, written from docs/usage/expressions.md
// and the property statement. Lists are Go slices; a value is the NUL-joined
// encoding. Because the encoding cannot tell "no elements" from "one empty
// element", every evaluation yields a small SET of acceptable results
// (candidates); where the documentation is silent the evaluation abstains.

import (
	"math/big"
	"strconv"
	"strings"
)

const nul = "\x00"

// known input classes (fingerprints of defects recorded in known.d)
const (
	fpSplitMulti   = "split:multibyte-delimiter"
	fpSliceBeyond  = "slice:negative-start-beyond-length"
	fpForKey       = "for:named-key-parent-unset"
	fpSubNeg       = "subctx:negative-match-index"
	fpForLeadEmpty = "for:leading-empty-value"
)

type abstain struct {
	why string
	big bool // the evaluation outgrew what is modelled: the real helpers are not run either
}

func giveUp(why string) { panic(abstain{why: why}) }
func tooBig(why string) { panic(abstain{why: why, big: true}) }

const maxValue = 1 << 20 // bytes of any intermediate value

type env struct {
	top   func(i int) string // top-level context matches
	sub   bool
	v     [2]string
	nv    int // bound sub variables: 1 = {0}; 2 = {0},{1}
	key   func(k string) string
	inFor bool
}

type refEval struct {
	flags   map[string]bool
	maxList int // longest list an array helper consumed
	steps   int
	helpers map[string]int
}

func newRef() *refEval { return &refEval{flags: map[string]bool{}, helpers: map[string]int{}} }

func (r *refEval) tick(n int) {
	r.steps += n
	if r.steps > 400000 {
		tooBig("reference budget")
	}
}

const maxCand = 12

func uniq(xs []string) []string {
	if len(xs) < 2 {
		return xs
	}
	out := xs[:0:0]
	for _, x := range xs {
		dup := false
		for _, y := range out {
			if x == y {
				dup = true
				break
			}
		}
		if !dup {
			out = append(out, x)
		}
	}
	if len(out) > maxCand {
		giveUp("too many candidates")
	}
	return out
}

// product applies f to every combination of one candidate per slot.
func (r *refEval) product(slots [][]string, f func(v []string) []string) []string {
	total := 1
	for _, s := range slots {
		total *= len(s)
		if total > 64 {
			giveUp("candidate product too large")
		}
	}
	cur := make([]string, len(slots))
	var out []string
	var rec func(i int)
	rec = func(i int) {
		if i == len(slots) {
			r.tick(1)
			res := f(cur)
			for _, x := range res {
				if len(x) > maxValue {
					tooBig("value larger than modelled")
				}
			}
			out = append(out, res...)
			return
		}
		for _, c := range slots[i] {
			cur[i] = c
			rec(i + 1)
		}
	}
	rec(0)
	return uniq(out)
}

// try runs f for its flags only; an abstention inside does not propagate.
func (r *refEval) try(f func()) {
	defer func() {
		if p := recover(); p != nil {
			if a, ok := p.(abstain); !ok || a.big {
				panic(p)
			}
		}
	}()
	f()
}

func (r *refEval) seq(parts []*Node, e *env) []string {
	if len(parts) == 1 {
		return r.node(parts[0], e)
	}
	slots := make([][]string, len(parts))
	for i, p := range parts {
		slots[i] = r.node(p, e)
	}
	return r.product(slots, func(v []string) []string { return []string{strings.Join(v, "")} })
}

func (r *refEval) node(n *Node, e *env) []string {
	r.tick(1)
	switch n.K {
	case "lit":
		return []string{n.S}
	case "m":
		if e.sub {
			if n.I < 0 {
				r.flags[fpSubNeg] = true
				giveUp("negative index in a sub-expression: undocumented")
			}
			if n.I >= e.nv && n.I < len(e.v) {
				// {1} inside @map/@filter: nothing is bound to it. Like every group that does not exist it reads
				// as empty; in particular not as the value a previous @reduce/@for left in a pooled context.
				r.flags["sub-unbound-index"] = true
				return []string{""}
			}
			if n.I >= e.nv {
				giveUp("{i} beyond the documented bindings of a sub-expression")
			}
			return []string{e.v[n.I]}
		}
		if n.I < 0 {
			giveUp("negative top-level index")
		}
		return []string{e.top(n.I)}
	case "key":
		if e.inFor {
			r.flags[fpForKey] = true
		}
		return []string{e.key(n.S)}
	case "call":
		return r.call(n, e)
	}
	giveUp("bad node")
	return nil
}

func (r *refEval) args(n *Node, e *env, from int) [][]string {
	out := make([][]string, 0, len(n.A))
	for _, a := range n.A[from:] {
		out = append(out, r.seq(a.P, e))
	}
	return out
}

// first evaluates only the first argument (the others are literals or
// sub-expressions with their own bindings).
func (r *refEval) first(n *Node, e *env) [][]string {
	return [][]string{r.seq(n.A[0].P, e)}
}

// ---------------------------------------------------------------- scalars

// truthy per the docs: "False is an empty value (or only whitespace)".
// Whitespace other than space/tab/CR/LF is not judged.
func truthy(v string) bool {
	if v == "" {
		return false
	}
	t := strings.Trim(v, " \t\r\n")
	if t == "" {
		return false
	}
	if strings.TrimSpace(v) == "" {
		giveUp("exotic whitespace truthiness")
	}
	return true
}

func boolStr(b bool) string {
	if b {
		return "1"
	}
	return ""
}

var lim18 = new(big.Int).Exp(big.NewInt(10), big.NewInt(18), nil)

// canonInt accepts only canonical decimal integers of at most 18 digits.
func canonInt(s string) (*big.Int, bool) {
	t := s
	if strings.HasPrefix(t, "-") {
		t = t[1:]
	}
	if t == "" || len(t) > 18 {
		return nil, false
	}
	for i := 0; i < len(t); i++ {
		if t[i] < '0' || t[i] > '9' {
			return nil, false
		}
	}
	if len(t) > 1 && t[0] == '0' {
		return nil, false
	}
	if s == "-0" {
		return nil, false
	}
	v, ok := new(big.Int).SetString(s, 10)
	return v, ok
}

func mustInt(s string) *big.Int {
	v, ok := canonInt(s)
	if !ok {
		giveUp("non-canonical integer argument " + strconv.Quote(s))
	}
	return v
}

func smallInt(s string, bound int64) int64 {
	v := mustInt(s)
	if !v.IsInt64() || v.Int64() > bound || v.Int64() < -bound {
		tooBig("integer out of the modelled range")
	}
	return v.Int64()
}

func fmtInt(v *big.Int) string {
	if new(big.Int).Abs(v).Cmp(lim18) >= 0 {
		giveUp("integer overflow range")
	}
	return v.String()
}

func isASCII(s string) bool {
	for i := 0; i < len(s); i++ {
		if s[i] >= 0x80 {
			return false
		}
	}
	return true
}

func containsFold(s, sub string) bool { return strings.Contains(strings.ToLower(s), sub) }

// clearly not a number: empty, or no digit and no inf/nan spelling
func notNumber(s string) bool {
	if s == "" {
		return true
	}
	if strings.ContainsAny(s, "0123456789") {
		return false
	}
	return !containsFold(s, "inf") && !containsFold(s, "nan")
}

func canonDecimal(s string) bool {
	i := strings.IndexByte(s, '.')
	if i <= 0 || i == len(s)-1 {
		return false
	}
	if _, ok := canonInt(s[:i]); !ok && s[:i] != "-0" {
		return false
	}
	fr := s[i+1:]
	if len(fr) > 9 {
		return false
	}
	for k := 0; k < len(fr); k++ {
		if fr[k] < '0' || fr[k] > '9' {
			return false
		}
	}
	return true
}

// ---------------------------------------------------------------- lists

// decode returns the element lists an encoding may stand for.
func decode(c string) [][]string {
	if c == "" {
		return [][]string{{}, {""}}
	}
	return [][]string{strings.Split(c, nul)}
}

func (r *refEval) sawList(c string) {
	if c == "" {
		return
	}
	n := strings.Count(c, nul) + 1
	if n > r.maxList {
		r.maxList = n
	}
}

func overlapping(s, d string) bool {
	if len(d) < 2 {
		return false
	}
	last := -1
	for i := 0; i+len(d) <= len(s); i++ {
		if s[i:i+len(d)] == d {
			if last >= 0 && i-last < len(d) {
				return true
			}
			last = i
		}
	}
	return false
}

func staticLit(a Arg) (string, bool) {
	var sb strings.Builder
	for _, p := range a.P {
		if p.K != "lit" {
			return "", false
		}
		sb.WriteString(p.S)
	}
	return sb.String(), true
}

func staticInt(a Arg) (int, bool) {
	s, ok := staticLit(a)
	if !ok {
		return 0, false
	}
	if _, ok := canonInt(s); !ok {
		return 0, false
	}
	v, err := strconv.Atoi(s)
	return v, err == nil
}

func (r *refEval) subEnv(e *env, nv int, inFor bool) *env {
	return &env{sub: true, nv: nv, key: e.key, inFor: e.inFor || inFor}
}

func (r *refEval) call(n *Node, e *env) []string {
	r.helpers[n.S]++
	na := len(n.A)
	need := func(lo, hi int) {
		if na < lo || na > hi {
			giveUp("argument count not modelled for " + n.S)
		}
	}
	switch n.S {
	// ---- plain scalar helpers (documented behaviour only)
	case "upper", "lower":
		need(1, 1)
		return r.product(r.args(n, e, 0), func(v []string) []string {
			if n.S == "upper" {
				return []string{strings.ToUpper(v[0])}
			}
			return []string{strings.ToLower(v[0])}
		})
	case "len":
		need(1, 1)
		return r.product(r.args(n, e, 0), func(v []string) []string {
			if !isASCII(v[0]) {
				giveUp("len of non-ASCII: bytes or runes is not documented")
			}
			return []string{strconv.Itoa(len(v[0]))}
		})
	case "eq", "neq":
		need(2, 2)
		return r.product(r.args(n, e, 0), func(v []string) []string {
			return []string{boolStr((v[0] == v[1]) == (n.S == "eq"))}
		})
	case "not":
		need(1, 1)
		return r.product(r.args(n, e, 0), func(v []string) []string {
			if v[0] != "" && strings.TrimSpace(v[0]) == "" {
				giveUp("not of whitespace-only value")
			}
			return []string{boolStr(!truthy(v[0]))}
		})
	case "if":
		need(2, 3)
		return r.product(r.args(n, e, 0), func(v []string) []string {
			if truthy(v[0]) {
				return []string{v[1]}
			}
			if len(v) == 3 {
				return []string{v[2]}
			}
			return []string{""}
		})
	case "unless":
		need(2, 2)
		return r.product(r.args(n, e, 0), func(v []string) []string {
			if !truthy(v[0]) {
				return []string{v[1]}
			}
			return []string{""}
		})
	case "coalesce":
		need(1, 8)
		return r.product(r.args(n, e, 0), func(v []string) []string {
			for _, x := range v {
				if x != "" {
					return []string{x}
				}
			}
			return []string{""}
		})
	case "and", "or": // used in truthiness positions only
		need(1, 8)
		return r.product(r.args(n, e, 0), func(v []string) []string {
			all, any := true, false
			for _, x := range v {
				if x != "" && strings.TrimSpace(x) == "" {
					giveUp("and/or of whitespace-only value")
				}
				if truthy(x) {
					any = true
				} else {
					all = false
				}
			}
			if n.S == "and" {
				return []string{boolStr(all)}
			}
			return []string{boolStr(any)}
		})
	case "prefix", "suffix", "like": // truthiness positions only, non-blank needle
		need(2, 2)
		return r.product(r.args(n, e, 0), func(v []string) []string {
			if strings.TrimSpace(v[1]) == "" || strings.TrimSpace(v[1]) != v[1] {
				giveUp("blank needle")
			}
			var ok bool
			switch n.S {
			case "prefix":
				ok = strings.HasPrefix(v[0], v[1])
			case "suffix":
				ok = strings.HasSuffix(v[0], v[1])
			default:
				ok = strings.Contains(v[0], v[1])
			}
			return []string{boolStr(ok)}
		})
	case "format": // only %s verbs
		need(1, 6)
		f, ok := staticLit(n.A[0])
		if !ok || strings.Count(f, "%s") != na-1 || strings.Count(f, "%") != na-1 {
			giveUp("format string not modelled")
		}
		return r.product(r.args(n, e, 1), func(v []string) []string {
			pieces := strings.Split(f, "%s")
			var sb strings.Builder
			for i, p := range pieces {
				sb.WriteString(p)
				if i < len(v) {
					sb.WriteString(v[i])
				}
			}
			return []string{sb.String()}
		})
	case "isint", "isnum": // truthiness positions only
		need(1, 1)
		return r.product(r.args(n, e, 0), func(v []string) []string {
			if _, ok := canonInt(v[0]); ok {
				return []string{"1"}
			}
			if notNumber(v[0]) {
				return []string{""}
			}
			if canonDecimal(v[0]) {
				return []string{boolStr(n.S == "isnum")}
			}
			giveUp("borderline numeric spelling")
			return nil
		})
	case "sumi", "subi", "multi", "maxi", "mini":
		need(2, 8)
		return r.product(r.args(n, e, 0), func(v []string) []string {
			acc := new(big.Int).Set(mustInt(v[0]))
			for _, x := range v[1:] {
				b := mustInt(x)
				switch n.S {
				case "sumi":
					acc.Add(acc, b)
				case "subi":
					acc.Sub(acc, b)
				case "multi":
					acc.Mul(acc, b)
				case "maxi":
					if b.Cmp(acc) > 0 {
						acc.Set(b)
					}
				case "mini":
					if b.Cmp(acc) < 0 {
						acc.Set(b)
					}
				}
				fmtInt(acc) // range check of every intermediate
			}
			return []string{fmtInt(acc)}
		})
	case "lt", "gt", "lte", "gte": // truthiness positions only
		need(2, 2)
		return r.product(r.args(n, e, 0), func(v []string) []string {
			c := mustInt(v[0]).Cmp(mustInt(v[1]))
			var ok bool
			switch n.S {
			case "lt":
				ok = c < 0
			case "gt":
				ok = c > 0
			case "lte":
				ok = c <= 0
			default:
				ok = c >= 0
			}
			return []string{boolStr(ok)}
		})

	// ---- array helpers
	case "$", "@":
		need(1, 64)
		return r.product(r.args(n, e, 0), func(v []string) []string {
			if len(v) > r.maxList {
				r.maxList = len(v)
			}
			return []string{strings.Join(v, nul)}
		})
	case "@len":
		need(1, 1)
		return r.product(r.args(n, e, 0), func(v []string) []string {
			r.sawList(v[0])
			if v[0] == "" {
				return []string{"0"} // documented: Empty "" returns 0
			}
			return []string{strconv.Itoa(strings.Count(v[0], nul) + 1)}
		})
	case "@split":
		need(1, 2)
		d := " "
		if na == 2 {
			var ok bool
			if d, ok = staticLit(n.A[1]); !ok || d == "" {
				giveUp("@split delimiter must be a non-empty literal")
			}
		}
		return r.product(r.first(n, e), func(v []string) []string {
			s := v[0]
			if strings.Contains(s, nul) {
				giveUp("@split of a string that already holds separators")
			}
			if len(d) > 1 && strings.Contains(s, d) {
				r.flags[fpSplitMulti] = true
			}
			if overlapping(s, d) {
				giveUp("overlapping delimiter occurrences: which ones delimit is not documented")
			}
			parts := strings.Split(s, d)
			if len(parts) > r.maxList {
				r.maxList = len(parts)
			}
			return []string{strings.Join(parts, nul)}
		})
	case "@join":
		need(1, 2)
		d := " "
		if na == 2 {
			var ok bool
			if d, ok = staticLit(n.A[1]); !ok || d == "" {
				giveUp("@join delimiter must be a non-empty literal")
			}
		}
		// law: joining what @split produced with the same delimiter restores the
		// string, whichever occurrences @split chose
		if len(n.A[0].P) == 1 && n.A[0].P[0].K == "call" && n.A[0].P[0].S == "@split" {
			in := n.A[0].P[0]
			d2 := " "
			ok := true
			if len(in.A) == 2 {
				d2, ok = staticLit(in.A[1])
			}
			if ok && d2 == d && len(in.A) >= 1 && len(in.A) <= 2 {
				r.helpers["@split"]++
				return r.product([][]string{r.seq(in.A[0].P, e)}, func(v []string) []string {
					if strings.Contains(v[0], nul) {
						giveUp("@split of a string that already holds separators")
					}
					if len(d) > 1 && strings.Contains(v[0], d) {
						r.flags[fpSplitMulti] = true
					}
					if n := strings.Count(v[0], d) + 1; n > r.maxList {
						r.maxList = n
					}
					return []string{v[0]}
				})
			}
		}
		return r.product(r.first(n, e), func(v []string) []string {
			r.sawList(v[0])
			if v[0] == "" {
				return []string{""}
			}
			return []string{strings.Join(strings.Split(v[0], nul), d)}
		})
	case "@select":
		need(2, 2)
		idx, ok := staticInt(n.A[1])
		if !ok {
			giveUp("@select index must be a literal integer")
		}
		return r.product(r.first(n, e), func(v []string) []string {
			r.sawList(v[0])
			if v[0] == "" {
				return []string{""}
			}
			l := strings.Split(v[0], nul)
			i := idx
			if i < 0 {
				i += len(l)
			}
			if i < 0 || i >= len(l) {
				return []string{""} // DESIGN: out of range selects nothing
			}
			return []string{l[i]}
		})
	case "@slice":
		need(2, 3)
		start, ok := staticInt(n.A[1])
		if !ok {
			giveUp("@slice start must be a literal integer")
		}
		hasLen := na == 3
		ln := 0
		if hasLen {
			if ln, ok = staticInt(n.A[2]); !ok {
				giveUp("@slice length must be a literal integer")
			}
		}
		return r.product(r.first(n, e), func(v []string) []string {
			r.sawList(v[0])
			res, exact := refSlice(v[0], start, hasLen, ln, r.flags)
			if !exact {
				giveUp("out-of-range @slice: clamping is not documented")
			}
			return []string{res}
		})
	case "@in":
		need(2, 2)
		// the array must be constant: evaluate it without any context
		arrC := r.seq(n.A[1].P, &env{top: func(int) string { giveUp("@in array must be constant"); return "" },
			key: func(string) string { giveUp("@in array must be constant"); return "" }})
		vals := r.seq(n.A[0].P, e)
		return r.product([][]string{vals, arrC}, func(v []string) []string {
			r.sawList(v[1])
			// a value that is itself a list of two or more elements is no element of any list ("@in tests
			// membership"): elements never contain the separator, so the loop below finds nothing
			var out []string
			for _, l := range decode(v[1]) {
				found := false
				for _, x := range l {
					if x == v[0] {
						found = true
					}
				}
				out = append(out, boolStr(found))
			}
			return out
		})
	case "@map":
		need(2, 2)
		return r.product(r.first(n, e), func(v []string) []string {
			r.sawList(v[0])
			var out []string
			for _, l := range decode(v[0]) {
				slots := make([][]string, len(l))
				for i, x := range l {
					se := r.subEnv(e, 1, false)
					se.v[0] = x
					slots[i] = r.seq(n.A[1].P, se)
				}
				if len(l) == 0 {
					out = append(out, "")
					continue
				}
				out = append(out, r.product(slots, func(w []string) []string { return []string{strings.Join(w, nul)} })...)
			}
			return out
		})
	case "@filter":
		need(2, 2)
		return r.product(r.first(n, e), func(v []string) []string {
			r.sawList(v[0])
			if v[0] == "" {
				// nothing kept, or one empty element kept: both encode as ""; the
				// predicate is still evaluated for its abstentions / flags
				r.try(func() { r.seq(n.A[1].P, r.subEnv(e, 1, false)) })
				return []string{""}
			}
			l := strings.Split(v[0], nul)
			slots := make([][]string, len(l))
			for i, x := range l {
				se := r.subEnv(e, 1, false)
				se.v[0] = x
				var ts []string
				for _, p := range r.seq(n.A[1].P, se) {
					ts = append(ts, boolStr(truthy(p)))
				}
				slots[i] = uniq(ts)
			}
			return r.product(slots, func(w []string) []string {
				keep := []string{}
				for i, t := range w {
					if t != "" {
						keep = append(keep, l[i])
					}
				}
				return []string{strings.Join(keep, nul)}
			})
		})
	case "@reduce":
		need(2, 3)
		initial := ""
		if na == 3 {
			var ok bool
			if initial, ok = staticLit(n.A[2]); !ok {
				giveUp("@reduce initial must be a literal")
			}
		}
		fold := func(memo string, rest []string) []string {
			cur := []string{memo}
			for _, x := range rest {
				var next []string
				for _, m := range cur {
					se := r.subEnv(e, 2, false)
					se.v[0], se.v[1] = m, x
					next = append(next, r.seq(n.A[1].P, se)...)
				}
				cur = uniq(next)
			}
			return cur
		}
		return r.product(r.first(n, e), func(v []string) []string {
			r.sawList(v[0])
			var out []string
			for _, l := range decode(v[0]) {
				switch {
				case initial != "":
					out = append(out, fold(initial, l)...)
				case len(l) == 0:
					out = append(out, "") // arr[0] of nothing: only "" is sensible
				default:
					out = append(out, fold(l[0], l[1:])...)
				}
			}
			return out
		})
	case "@range":
		need(1, 3)
		return r.product(r.args(n, e, 0), func(v []string) []string {
			start, stop, incr := int64(0), int64(0), int64(1)
			switch len(v) {
			case 1:
				stop = smallInt(v[0], 1e7)
			case 2:
				start, stop = smallInt(v[0], 1e7), smallInt(v[1], 1e7)
			default:
				start, stop, incr = smallInt(v[0], 1e7), smallInt(v[1], 1e7), smallInt(v[2], 1e7)
			}
			if incr == 0 {
				return []string{"<VALUE>"} // documented in the Errors table
			}
			if (incr > 0 && start > stop) || (incr < 0 && start < stop) {
				return []string{"", "<VALUE>"} // empty range or range error: not documented which
			}
			var out []string
			for i := start; (incr > 0 && i < stop) || (incr < 0 && i > stop); i += incr {
				out = append(out, strconv.FormatInt(i, 10))
				if len(out) > 3000 {
					tooBig("@range longer than modelled")
				}
			}
			r.tick(len(out))
			if len(out) > r.maxList {
				r.maxList = len(out)
			}
			return []string{strings.Join(out, nul)}
		})
	case "@for":
		need(3, 3)
		return r.product(r.first(n, e), func(v []string) []string {
			val := v[0]
			var out []string
			for idx := 0; ; idx++ {
				se := r.subEnv(e, 2, true)
				se.v[0], se.v[1] = val, strconv.Itoa(idx)
				w := r.seq(n.A[1].P, se)
				if len(w) != 1 {
					giveUp("ambiguous @for condition")
				}
				if !truthy(w[0]) {
					break
				}
				out = append(out, val)
				if len(out) > 3000 {
					tooBig("@for longer than modelled")
				}
				se2 := r.subEnv(e, 2, true)
				se2.v[0], se2.v[1] = val, strconv.Itoa(idx)
				nx := r.seq(n.A[2].P, se2)
				if len(nx) != 1 {
					giveUp("ambiguous @for increment")
				}
				val = nx[0]
			}
			if len(out) > r.maxList {
				r.maxList = len(out)
			}
			if len(out) > 1 && out[0] == "" {
				// two or more values, the first one empty: the class of the recorded
				// defect (separator decided by "anything written yet")
				r.flags[fpForLeadEmpty] = true
			}
			return []string{strings.Join(out, nul)}
		})
	}
	giveUp("helper not modelled: " + n.S)
	return nil
}

// refSlice gives the exact result of an in-range slice; exact=false when the
// request leaves the list (then only "a contiguous sub-list" is required).
func refSlice(c string, start int, hasLen bool, ln int, flags map[string]bool) (string, bool) {
	var l []string
	if c != "" {
		l = strings.Split(c, nul)
	}
	n := len(l)
	m := n
	if m == 0 {
		m = 1
	}
	if start+m < 0 && flags != nil {
		flags[fpSliceBeyond] = true
	}
	if n == 0 {
		return "", true // any slice of nothing is nothing
	}
	s := start
	if s < 0 {
		s += n
	}
	if s < 0 || s >= n {
		return "", false
	}
	if !hasLen {
		return strings.Join(l[s:], nul), true
	}
	if ln < 0 || s+ln > n {
		return "", false
	}
	return strings.Join(l[s:s+ln], nul), true
}

// isSubList: is the decoded r a contiguous sub-list of the decoded c?
func isSubList(r, c string) bool {
	if r == "" {
		return true
	}
	if c == "" {
		return false
	}
	l := strings.Split(c, nul)
	w := strings.Split(r, nul)
	for o := 0; o+len(w) <= len(l); o++ {
		ok := true
		for i := range w {
			if l[o+i] != w[i] {
				ok = false
				break
			}
		}
		if ok {
			return true
		}
	}
	return false
}

// evalRef evaluates a template for one context. ok=false means abstained.
func evalRef(parts []*Node, cx *CtxSpec) (cands []string, r *refEval, why string) {
	cands, r, why, _ = evalRefBig(parts, cx)
	return
}

func evalRefBig(parts []*Node, cx *CtxSpec) (cands []string, r *refEval, why string, big bool) {
	r = newRef()
	e := &env{
		top: func(i int) string {
			if i >= 0 && i < len(cx.El) {
				return string(cx.El[i])
			}
			return ""
		},
		key: func(k string) string { return string(cx.Keys[k]) },
	}
	defer func() {
		if p := recover(); p != nil {
			if a, isA := p.(abstain); isA {
				cands, why, big = nil, a.why, a.big
				return
			}
			panic(p)
		}
	}()
	cands = r.seq(parts, e)
	return cands, r, "", false
}
