package p17

import (
	"fmt"
	"os"
	"path/filepath"
	"time"

	"verifharness/internal/pipe"
	"verifharness/internal/run"
)

// "named keys resolved in the enclosing match": through the real extractor the enclosing match changes with every
// line while one worker keeps one context object. The array views of a match ({@}, and the helpers fed from it) must be
// those of the line being evaluated, also when the previous line the worker saw had the same line number in another
// input (pipe.GenSameLines). The expected keys come from the sequential reference with a fresh context per line.
var pipelineExtracts = []string{
	"{@}", "{@join {@} +}", "{@len {@}}:{1}", "{@select {@} 1}-{@select {@} 0}", "{@map {@} {upper {0}}}", "{@slice {@} 1}", "{@slice {@} -1}|{@}",
	"{@filter {@} {isint {0}}}", "{@reduce {@} {$ {1} {0}}}", "{@in {1} {@ GET POST a}}/{@}", "{$ {1} {@} {2}}", "{@for {@len {@}} {lt {0} 6} {sumi {0} 1}}", "{@join {@map {@} \"{1}={0}\"} ,}",
}

func pipeline(c *run.Ctx, n int, next func() int) {
	for i := 0; i < n; i++ {
		if !c.Mine(next()) {
			continue
		}
		pipelineOne(c, &Case{Kind: "pipe", From: i, Seed: c.Seed})
	}
}

func pipelineOne(c *run.Ctx, cs *Case) {
	r := run.NewRand(cs.Seed, "C17pipe", cs.From)
	w := pipe.GenSameLines(r)
	w.Extract = pipelineExtracts[cs.From%len(pipelineExtracts)]
	c.Begin(cs, 300*time.Second)
	defer c.End()
	dir := filepath.Join(c.WorkDir, "pipe")
	os.RemoveAll(dir)
	os.MkdirAll(dir, 0o755)
	defer os.RemoveAll(dir)
	truth, err := pipe.Reference(w, dir)
	if err != nil {
		c.Inconclusive("pipeline family: the reference cannot evaluate " + w.Extract + ": " + err.Error())
		return
	}
	obs := pipe.Run(w, dir, 200*time.Second)
	if obs.TimedOut {
		c.Inconclusive("pipeline family: run exceeded 200 s")
		return
	}
	for _, f := range pipe.JudgeC01(w, dir, truth, obs) {
		if f.Class != "wrong-key" && f.Class != "spurious-match" && f.Class != "not-exactly-once" {
			continue // counters and the like are C01's business
		}
		c.Violation("enclosing-match:"+w.Extract, fmt.Sprintf("through the extractor (config %s, matcher %s %q, %d inputs of 1-3 lines): %s [extract %q, ignore %q]",
			w.Cfg.String(), w.Matcher.Kind, w.Matcher.Pattern, len(w.Inputs), f.Msg, w.Extract, w.Ignore), cs)
	}
	c.Count("pipeline_runs", 1)
	c.Count("pipeline_lines_judged", int64(len(truth)))
	c.Evals(len(truth))
	if len(w.Inputs) >= 2 && len(truth) >= 2 {
		c.Nontrivial("pipe", fmt.Sprint(cs.From))
	}
}
