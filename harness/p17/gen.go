package p17

import (
	"strconv"
	"strings"

	"verifharness/internal/run"
)

// Random template generator. Two domains keep the abstention rate low:
//   int: list elements / scalars are canonical small integers, sub-expressions
//        come from the integer and comparison helpers;
//   str: arbitrary byte strings (no NUL) with the string / logic helpers.
// Context roles (same in every context a template is evaluated on):
//   {0} encoded list A   {1} scalar   {2} list B joined with g.delim
//   {3} scalar           {4} encoded list C
//   keys: n (0..8)  k (scalar)  list (encoded list)  who (context id)

type gen struct {
	r        *run.Rand
	dom      string
	thorough bool
	avoid    map[string]bool
	delim    string
	budget   int
}

var (
	delimsSingle = []string{",", ":", " ", "\t", "|", ";", "/", "=", "#", "x"}
	delimsMulti  = []string{"::", ", ", "ab", "→", ",,", "-->", "é", "日本", "aa", ";;;", " - ", "→→"}
	strUnits     = []string{"a", "b", "c", "A", "B", "Z", "0", "1", "9", " ", "\t", ":", ",", ";", "|", "-", "→", "é", "日",
		"\x01", "\xff", "\xe2\x86", "x", "y", "ab", "::", ">", "\n"}
	litUnits = []string{"a", "b", "x", "Z", "0", "7", "-", "_", ".", ":", ",", ";", "/", "=", "+", "*", "#", "!", "?", "&", "|",
		"^", "~", "<", ">", "(", ")", "[", "]", "'", "é", "→", "日", "q", "W"}
)

func (g *gen) pickDelim(allowMulti bool) string {
	if allowMulti && !g.avoid[fpSplitMulti] && g.r.Intn(3) == 0 {
		return g.r.Pick(delimsMulti)
	}
	return g.r.Pick(delimsSingle)
}

func (g *gen) intVal() int {
	switch g.r.Intn(8) {
	case 0:
		return 0
	case 1:
		return g.r.Range(-20, -1)
	case 2:
		return g.r.Range(0, 3)
	default:
		return g.r.Range(0, 50)
	}
}

func (g *gen) strVal() string {
	n := 0
	switch g.r.Intn(6) {
	case 0:
		n = 0
	case 1:
		n = 1
	default:
		n = g.r.Range(1, 5)
	}
	var sb strings.Builder
	for i := 0; i < n; i++ {
		if g.r.Intn(7) == 0 && g.delim != "" {
			// whole or partial delimiter inside an element
			d := g.delim
			sb.WriteString(d[:g.r.Range(1, len(d))])
			continue
		}
		sb.WriteString(g.r.Pick(strUnits))
	}
	return sb.String()
}

func (g *gen) scalar() string {
	if g.dom == "int" {
		return strconv.Itoa(g.intVal())
	}
	return g.strVal()
}

func (g *gen) listLen() int {
	switch g.r.Intn(10) {
	case 0:
		return 0
	case 1:
		return 1
	case 2:
		if g.thorough {
			return g.r.Range(13, 40)
		}
		return g.r.Range(9, 16)
	default:
		return g.r.Range(2, 8)
	}
}

func (g *gen) list() []string {
	n := g.listLen()
	l := make([]string, n)
	for i := range l {
		l[i] = g.scalar()
		if g.dom == "str" && g.r.Intn(5) == 0 {
			l[i] = ""
		}
	}
	return l
}

func (g *gen) ctx(id int) CtxSpec {
	b := g.list() // elements may hold the delimiter: the reference splits the joined string
	cx := CtxSpec{Keys: map[string][]byte{}}
	cx.El = [][]byte{
		[]byte(strings.Join(g.list(), nul)),
		[]byte(g.scalar()),
		[]byte(strings.Join(b, g.delim)),
		[]byte(g.scalar()),
		[]byte(strings.Join(g.list(), nul)),
	}
	cx.Keys["n"] = []byte(strconv.Itoa(g.r.Range(0, 8)))
	cx.Keys["k"] = []byte(g.scalar())
	cx.Keys["list"] = []byte(strings.Join(g.list(), nul))
	cx.Keys["who"] = []byte("ctx" + strconv.Itoa(id))
	return cx
}

// growth control: a reducer / @for increment is applied repeatedly to its own
// result. It may mention {0} at most once and must not loop itself, so values
// grow at most linearly with the number of applications (no 2^n strings).
func countM0(a Arg) (m0 int, loops bool) {
	var walk func(n *Node)
	walk = func(n *Node) {
		if n.K == "m" && n.I == 0 {
			m0++
		}
		if n.K == "call" && (n.S == "@for" || n.S == "@range" || n.S == "@reduce") {
			loops = true
		}
		for _, x := range n.A {
			for _, p := range x.P {
				walk(p)
			}
		}
	}
	for _, p := range a.P {
		walk(p)
	}
	return
}

func tame(a Arg) bool {
	m0, loops := countM0(a)
	return m0 <= 1 && !loops
}

// clamp keeps an operand that may be arbitrarily large inside -30..30.
func clamp(n *Node) Arg {
	return arg(call("mini", arg(call("maxi", arg(n), ia(-30))), ia(30)))
}

// ---------------------------------------------------------------- literals

func (g *gen) litInt() *Node { return lit(strconv.Itoa(g.intVal())) }

func (g *gen) litStr(allowSpace bool) *Node {
	n := g.r.Range(0, 3)
	if n == 0 && g.r.Intn(3) != 0 {
		n = 1
	}
	var sb strings.Builder
	for i := 0; i < n; i++ {
		if allowSpace && g.r.Intn(8) == 0 {
			sb.WriteByte(' ')
		} else {
			sb.WriteString(g.r.Pick(litUnits))
		}
	}
	return lit(sb.String())
}

func (g *gen) litScalar() *Node {
	if g.dom == "int" {
		return g.litInt()
	}
	return g.litStr(true)
}

func (g *gen) keyOK(inFor bool) bool { return !(inFor && g.avoid[fpForKey]) }

// ---------------------------------------------------------------- values

// leafVal: a scalar that needs no helper.
func (g *gen) leafVal(sv int, inFor bool) *Node {
	for {
		switch g.r.Intn(6) {
		case 0, 1:
			return g.litScalar()
		case 2, 3:
			if sv == 0 {
				if g.r.Intn(12) == 0 {
					return mt(9) // beyond the context: ""
				}
				return mt(1 + 2*g.r.Intn(2))
			}
			if !g.avoid[fpSubNeg] && g.r.Intn(80) == 0 {
				return mt(-1 - g.r.Intn(2)) // undocumented value; must not panic
			}
			if sv == 1 && g.r.Intn(8) == 0 {
				return mt(1) // not bound by @map/@filter: reads as empty, never as what an earlier evaluation left behind
			}
			return mt(g.r.Intn(sv))
		case 4:
			if g.keyOK(inFor) {
				return key("k")
			}
		case 5:
			if sv > 0 {
				return mt(0)
			}
			if g.keyOK(inFor) && g.dom == "int" {
				return key("n")
			}
		}
	}
}

func (g *gen) val(d, sv int, inFor bool) Arg {
	g.budget--
	if d <= 0 || g.budget <= 0 || g.r.Intn(3) == 0 {
		return arg(g.leafVal(sv, inFor))
	}
	if g.r.Intn(2) == 0 { // list -> scalar helpers
		switch g.r.Intn(4) {
		case 0:
			return arg(call("@len", arg(g.list_(d-1, sv, inFor))))
		case 1:
			return arg(call("@select", arg(g.list_(d-1, sv, inFor)), ia(g.index())))
		case 2:
			return arg(g.reduce(d-1, sv, inFor))
		default:
			return arg(call("@join", arg(g.list_(d-1, sv, inFor)), la(g.pickDelim(true))))
		}
	}
	if g.dom == "int" {
		switch g.r.Intn(5) {
		case 0, 1:
			fn := g.r.Pick([]string{"sumi", "subi", "multi", "maxi", "mini"})
			a := []Arg{g.val(d-1, sv, inFor), g.val(d-1, sv, inFor)}
			if g.r.Intn(4) == 0 {
				a = append(a, arg(g.litInt()))
			}
			return arg(call(fn, a...))
		case 2:
			return arg(call("if", g.pred(d-1, sv, inFor), g.val(d-1, sv, inFor), g.val(d-1, sv, inFor)))
		case 3:
			return arg(call("@len", arg(g.list_(d-1, sv, inFor))))
		default:
			return arg(call(g.r.Pick([]string{"eq", "neq"}), g.val(d-1, sv, inFor), g.val(d-1, sv, inFor)))
		}
	}
	switch g.r.Intn(8) {
	case 0:
		return arg(call(g.r.Pick([]string{"upper", "lower"}), g.val(d-1, sv, inFor)))
	case 1:
		return arg(call("if", g.pred(d-1, sv, inFor), g.val(d-1, sv, inFor), g.val(d-1, sv, inFor)))
	case 2:
		return arg(call("unless", g.pred(d-1, sv, inFor), g.val(d-1, sv, inFor)))
	case 3:
		return arg(call("coalesce", g.val(d-1, sv, inFor), g.val(d-1, sv, inFor)))
	case 4:
		return arg(call("format", la(g.r.Pick([]string{"<%s|%s>", "%s-%s", "%s%s", "[%s] %s"})), g.val(d-1, sv, inFor), g.val(d-1, sv, inFor)))
	case 5:
		return arg(call(g.r.Pick([]string{"eq", "neq"}), g.val(d-1, sv, inFor), g.val(d-1, sv, inFor)))
	default: // concatenation inside one argument
		a := g.val(d-1, sv, inFor)
		p := []*Node{}
		if g.r.Bool() {
			p = append(p, g.litStr(false))
		}
		p = append(p, a.P...)
		if g.r.Bool() {
			p = append(p, g.litStr(false))
		}
		if g.r.Intn(3) == 0 {
			p = append(p, g.leafVal(sv, inFor))
		}
		return Arg{P: p}
	}
}

func (g *gen) index() int {
	switch g.r.Intn(6) {
	case 0:
		return 0
	case 1:
		return -1
	case 2:
		return g.r.Range(-44, 44)
	default:
		return g.r.Range(-9, 9)
	}
}

// ---------------------------------------------------------------- predicates

func (g *gen) pred(d, sv int, inFor bool) Arg {
	g.budget--
	deep := d > 0 && g.budget > 0
	if g.dom == "int" {
		switch g.r.Intn(8) {
		case 0, 1, 2:
			return arg(call(g.r.Pick([]string{"lt", "gt", "lte", "gte"}), g.val(d-1, sv, inFor), g.val(d-1, sv, inFor)))
		case 3:
			return arg(call(g.r.Pick([]string{"eq", "neq"}), g.val(d-1, sv, inFor), g.val(d-1, sv, inFor)))
		case 4:
			return arg(call("@in", g.val(d-1, sv, inFor), arg(g.constList())))
		case 5:
			if deep {
				return arg(call(g.r.Pick([]string{"and", "or"}), g.pred(d-1, sv, inFor), g.pred(d-1, sv, inFor)))
			}
			return arg(call("isint", g.val(d-1, sv, inFor)))
		case 6:
			if deep {
				return arg(call("not", g.pred(d-1, sv, inFor)))
			}
			return arg(call("isnum", g.val(d-1, sv, inFor)))
		default:
			return arg(call("gt", g.val(d-1, sv, inFor), arg(g.litInt())))
		}
	}
	switch g.r.Intn(9) {
	case 0:
		return g.val(d-1, sv, inFor) // the value itself: truthy when not blank
	case 1, 2:
		return arg(call(g.r.Pick([]string{"eq", "neq"}), g.val(d-1, sv, inFor), g.val(d-1, sv, inFor)))
	case 3, 4:
		needle := g.r.Pick([]string{"a", "b", "A", ":", ",", "x", "→", "é", "0", "ab"})
		return arg(call(g.r.Pick([]string{"prefix", "suffix", "like"}), g.val(d-1, sv, inFor), la(needle)))
	case 5:
		return arg(call("@in", g.val(d-1, sv, inFor), arg(g.constList())))
	case 6:
		if deep {
			return arg(call(g.r.Pick([]string{"and", "or"}), g.pred(d-1, sv, inFor), g.pred(d-1, sv, inFor)))
		}
		return arg(call("isint", g.val(d-1, sv, inFor)))
	case 7:
		return arg(call("not", g.val(d-1, sv, inFor)))
	default:
		return arg(call("isnum", g.val(d-1, sv, inFor)))
	}
}

// constList: an array built from literals only (what @in requires).
func (g *gen) constList() *Node {
	switch g.r.Intn(5) {
	case 0:
		if g.dom == "int" {
			return call("@range", ia(g.r.Range(0, 12)))
		}
		return call("@split", la("a,b,,x"), la(","))
	case 1:
		return call("@map", arg(g.litList()), arg(call(g.r.Pick([]string{"upper", "lower"}), arg(mt(0)))))
	default:
		return g.litList()
	}
}

func (g *gen) litList() *Node {
	n := g.r.Range(1, 6)
	a := make([]Arg, n)
	for i := range a {
		a[i] = arg(g.litScalar())
	}
	return call(g.r.Pick([]string{"@", "$"}), a...)
}

// ---------------------------------------------------------------- lists

func (g *gen) leafList(sv int, inFor bool) *Node {
	for {
		switch g.r.Intn(8) {
		case 0, 1:
			if sv == 0 {
				return mt(4 * g.r.Intn(2))
			}
		case 2:
			if sv == 0 {
				return call("@split", arg(mt(2)), la(g.delim))
			}
			if g.dom == "str" {
				return call("@split", arg(mt(0)), la(g.pickDelim(true)))
			}
		case 3:
			if g.keyOK(inFor) {
				return key("list")
			}
		case 4:
			return g.litList()
		case 5:
			n := g.r.Range(1, 5)
			a := make([]Arg, n)
			for i := range a {
				a[i] = arg(g.leafVal(sv, inFor))
			}
			return call(g.r.Pick([]string{"@", "$"}), a...)
		case 6:
			if g.dom == "int" {
				return g.rng(0, sv, inFor)
			}
		case 7:
			if sv > 0 {
				a := []Arg{arg(mt(0))}
				if sv > 1 {
					a = append(a, arg(mt(1)))
				} else {
					a = append(a, arg(g.litScalar()))
				}
				if g.r.Bool() {
					a[0], a[1] = a[1], a[0]
				}
				return call("@", a...)
			}
		}
	}
}

func (g *gen) subArg(a Arg) Arg {
	if !hasQuote(a) && g.r.Intn(5) < 2 {
		a.Q = true // "The function must be surrounded by quotes" form
	}
	return a
}

func (g *gen) list_(d, sv int, inFor bool) *Node {
	g.budget--
	if d <= 0 || g.budget <= 0 || g.r.Intn(4) == 0 {
		return g.leafList(sv, inFor)
	}
	switch g.r.Intn(12) {
	case 0, 1, 2:
		return call("@map", arg(g.list_(d-1, sv, inFor)), g.subArg(g.val(d-1, 1, inFor)))
	case 3, 4:
		return call("@filter", arg(g.list_(d-1, sv, inFor)), g.subArg(g.pred(d-1, 1, inFor)))
	case 5, 6:
		a := []Arg{arg(g.list_(d-1, sv, inFor)), ia(g.index())}
		if g.r.Intn(3) != 0 {
			a = append(a, ia(g.r.Range(0, 9)))
		}
		return call("@slice", a...)
	case 7:
		if g.dom == "int" {
			return g.rng(d-1, sv, inFor)
		}
		dl := g.pickDelim(true)
		return call("@split", arg(call("@join", arg(g.list_(d-1, sv, inFor)), la(dl))), la(dl))
	case 8, 9:
		return g.forLoop(d-1, sv, inFor)
	case 10:
		// concatenation flattens
		a := []Arg{arg(g.list_(d-1, sv, inFor)), g.val(d-1, sv, inFor)}
		if g.r.Bool() {
			a = append(a, arg(g.list_(d-1, sv, inFor)))
		}
		return call(g.r.Pick([]string{"@", "$"}), a...)
	default:
		// a reducer that builds a list (e.g. reversal)
		return call("@reduce", arg(g.list_(d-1, sv, inFor)), g.subArg(arg(call("@", arg(mt(1)), arg(mt(0))))))
	}
}

func (g *gen) reduce(d, sv int, inFor bool) *Node {
	l := arg(g.list_(d, sv, inFor))
	var f Arg
	if g.dom == "int" {
		switch g.r.Intn(7) {
		case 0, 1:
			f = arg(call("sumi", arg(mt(0)), arg(mt(1))))
		case 2:
			f = arg(call(g.r.Pick([]string{"maxi", "mini", "subi"}), arg(mt(0)), arg(mt(1))))
		case 3:
			f = arg(call("if", arg(call("lt", arg(mt(0)), arg(mt(1)))), arg(mt(1)), arg(mt(0))))
		case 4:
			if g.keyOK(inFor) {
				f = arg(call("sumi", arg(mt(0)), arg(mt(1)), arg(key("n"))))
			} else {
				f = arg(call("sumi", arg(mt(1)), arg(mt(0))))
			}
		case 5:
			f = arg(call("subi", arg(mt(1)), arg(mt(0))))
		default:
			if f = g.val(d, 2, inFor); !tame(f) {
				f = arg(call("sumi", arg(mt(1)), arg(mt(0))))
			}
		}
	} else {
		switch g.r.Intn(7) {
		case 0:
			f = Arg{P: []*Node{mt(0), mt(1)}}
		case 1:
			f = Arg{P: []*Node{mt(1), lit("-"), mt(0)}}
		case 2:
			f = arg(call("coalesce", arg(mt(0)), arg(mt(1))))
		case 3:
			f = arg(call("format", la("%s+%s"), arg(mt(0)), arg(mt(1))))
		case 4:
			f = Arg{P: []*Node{call("upper", arg(mt(1))), mt(0)}}
		case 5:
			if g.keyOK(inFor) {
				f = Arg{P: []*Node{mt(0), key("who"), mt(1)}}
			} else {
				f = Arg{P: []*Node{mt(0), lit("."), mt(1)}}
			}
		default:
			if f = g.val(d, 2, inFor); !tame(f) {
				f = Arg{P: []*Node{mt(1), lit("~"), mt(0)}}
			}
		}
	}
	a := []Arg{l, g.subArg(f)}
	if g.r.Intn(3) == 0 {
		ini := g.litScalar()
		if ini.S != "" {
			a = append(a, arg(ini))
		}
	}
	return call("@reduce", a...)
}

// rng: {@range [start] stop [incr]} with small operands.
func (g *gen) rng(d, sv int, inFor bool) *Node {
	operand := func() Arg {
		switch g.r.Intn(6) {
		case 0:
			if sv == 0 {
				return arg(mt(1 + 2*g.r.Intn(2)))
			}
			// a bound variable can be arbitrarily large (e.g. a doubling @for)
			return clamp(mt(g.r.Intn(sv)))
		case 1:
			if g.keyOK(inFor) {
				return arg(key("n"))
			}
		case 2:
			if d > 0 {
				return arg(call("@len", arg(g.list_(d-1, sv, inFor))))
			}
		}
		return ia(g.r.Range(-6, 14))
	}
	if sv == 0 && d >= 2 && g.r.Intn(60) == 0 {
		return call("@range", ia(g.r.Range(-50, 50)), ia(g.r.Range(900, 2000)), ia(g.r.Range(1, 3)))
	}
	switch g.r.Intn(4) {
	case 0:
		return call("@range", operand())
	case 1:
		return call("@range", operand(), operand())
	default:
		incr := g.r.Range(-3, 4)
		if incr == 0 && g.r.Intn(3) != 0 {
			incr = 1
		}
		return call("@range", operand(), operand(), ia(incr))
	}
}

// forLoop: {@for start while incr}; the condition always bounds the index so
// that neither the helper nor the compile-time evaluation can run away.
func (g *gen) forLoop(d, sv int, inFor bool) *Node {
	k := g.r.Range(0, 7)
	if g.thorough && g.r.Intn(10) == 0 {
		k = g.r.Range(8, 40)
	}
	bound := arg(call("lt", arg(mt(1)), ia(k)))
	if g.keyOK(true) && g.r.Intn(4) == 0 {
		// the literal bound comes first: with an unknown {n} the comparison is an
		// error string (truthy) and only the literal stops the loop
		bound = arg(call("and", bound, arg(call("lt", arg(mt(1)), arg(key("n"))))))
	}
	while := bound
	var start, incr Arg
	if g.dom == "int" {
		start = g.val(0, sv, inFor)
		if g.r.Intn(3) == 0 {
			while = arg(call("and", bound, arg(call(g.r.Pick([]string{"lt", "lte", "gt", "neq"}), arg(mt(0)), ia(g.r.Range(-5, 60))))))
		} else if d > 0 && g.r.Intn(4) == 0 {
			while = arg(call("and", bound, g.pred(d-1, 2, true)))
		}
		switch g.r.Intn(7) {
		case 0, 1:
			incr = arg(call("sumi", arg(mt(0)), ia(g.r.Range(-3, 5))))
		case 2:
			incr = arg(call("sumi", arg(mt(0)), arg(mt(1))))
		case 3:
			incr = arg(call("sumi", arg(mt(0)), arg(mt(0))))
		case 4:
			if g.keyOK(true) {
				incr = arg(call("sumi", arg(mt(0)), arg(key("n"))))
			} else {
				incr = arg(call("subi", arg(mt(0)), arg(mt(1))))
			}
		case 5:
			incr = arg(call("multi", arg(mt(1)), arg(mt(1))))
		default:
			if incr = g.val(d-1, 2, true); !tame(incr) {
				incr = arg(call("subi", arg(mt(0)), ia(1)))
			}
		}
	} else {
		if g.r.Intn(5) == 0 && !g.avoid[fpForLeadEmpty] {
			start = la("")
		} else {
			start = g.val(0, sv, inFor)
		}
		if d > 0 && g.r.Intn(3) == 0 {
			while = arg(call("and", bound, g.pred(d-1, 2, true)))
		}
		switch g.r.Intn(7) {
		case 0:
			incr = Arg{P: []*Node{mt(0), lit("x")}}
		case 1:
			incr = Arg{P: []*Node{lit("y"), mt(0)}}
		case 2:
			incr = arg(mt(1))
		case 3:
			incr = Arg{P: []*Node{mt(0), lit(":"), mt(1)}}
		case 4:
			incr = arg(call("if", arg(call("eq", arg(mt(1)), ia(g.r.Range(0, 4)))), la(""), Arg{P: []*Node{mt(0), lit("z")}}))
		case 5:
			if g.keyOK(true) {
				incr = Arg{P: []*Node{mt(0), key("who")}}
			} else {
				incr = arg(call("upper", Arg{P: []*Node{mt(0), lit("q")}}))
			}
		default:
			if incr = g.val(d-1, 2, true); !tame(incr) {
				incr = Arg{P: []*Node{mt(1), lit("."), mt(0)}}
			}
		}
	}
	return call("@for", start, g.subArg(while), g.subArg(incr))
}

// template: the whole expression.
func (g *gen) template(depth int) []*Node {
	g.budget = 36
	var core *Node
	if g.r.Intn(4) == 0 {
		a := g.val(depth, 0, false)
		if len(a.P) == 1 {
			core = a.P[0]
		} else {
			return a.P
		}
	} else {
		core = g.list_(depth, 0, false)
	}
	switch g.r.Intn(8) {
	case 0:
		return []*Node{g.litStr(true), core, g.litStr(true)}
	case 1:
		return []*Node{core, lit("-"), g.leafVal(0, false)}
	default:
		return []*Node{core}
	}
}
