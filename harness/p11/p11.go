// Package p11 decides C11: scalar helper functions of the expression language
// return what docs/usage/expressions.md defines, for argument values supplied as
// constants and through match groups.
//
// Every case is (helper, argument tuple). It is rendered into templates
// ("{bucket -100 50}", "{bucket {0} 50}", mixed, named keys, optimiser off),
// compiled and evaluated by the real stdlib key builder, and each output is
// judged by the reference in ref.go (documented laws / small models).
package p11

import (
	"encoding/json"
	"fmt"
	"math"
	"math/big"
	"os"
	"rare/pkg/humanize"
	"strconv"
	"strings"
	"time"
	"unicode"
	"unicode/utf8"

	"rare/pkg/expressions"
	"rare/pkg/expressions/stdlib"

	"verifharness/internal/reg"
	"verifharness/internal/run"
)

func init() { reg.Register("C11", Run) }

// Case is one evaluation: a helper call rendered in one mode.
type Case struct {
	Helper string   `json:"helper"`
	Args   []string `json:"args"`            // strconv.Quote form (arguments may be arbitrary bytes)
	Mode   string   `json:"mode"`            // const | noopt | dyn | key | mixed
	Mask   uint32   `json:"mask,omitempty"`  // mixed: bit i set = argument i comes from match group {i}
	Quote  uint32   `json:"quote,omitempty"` // bit i set = constant i is written in quotes even if not needed
	Pin    string   `json:"pin,omitempty"`
}

func (cs *Case) args() []string {
	a := make([]string, len(cs.Args))
	for i, q := range cs.Args {
		s, err := strconv.Unquote(q)
		if err != nil {
			s = q
		}
		a[i] = s
	}
	return a
}

func quoteAll(a []string) []string {
	q := make([]string, len(a))
	for i, s := range a {
		q[i] = strconv.Quote(s)
	}
	return q
}

// positions the documentation denotes as literals ("in quotes") or that only make
// sense as configuration: always written as constants
var constPos = map[string][]int{
	"bucket": {1}, "bucketrange": {1}, "clamp": {1, 2}, "round": {1}, "percent": {1},
	"bytesize": {1}, "bytesizesi": {1}, "downscale": {1}, "lookup": {1, 2}, "haskey": {1, 2}, "format": {0},
}

func isConstPos(h string, i int) bool {
	for _, p := range constPos[h] {
		if p == i {
			return true
		}
	}
	return false
}

// A constant can be written literally when no escaping is involved (escapes
// inside braces are not defined by the documentation): valid UTF-8 without \ { } ".
func encodable(s string) bool {
	return utf8.ValidString(s) && !strings.ContainsAny(s, "\\{}\"")
}

func needsQuotes(s string) bool {
	if s == "" {
		return true
	}
	for _, r := range s {
		if unicode.IsSpace(r) {
			return true
		}
	}
	return false
}

// render builds the template and the context of a case. ok=false: the mode cannot express these arguments.
func render(cs *Case, a []string) (tmpl string, ctx *expressions.KeyBuilderContextArray, ok bool) {
	var sb strings.Builder
	sb.WriteByte('{')
	sb.WriteString(cs.Helper)
	keys := map[string]string{}
	for i, s := range a {
		dyn := false
		switch cs.Mode {
		case "dyn", "key":
			dyn = !isConstPos(cs.Helper, i)
		case "mixed":
			dyn = cs.Mask&(1<<uint(i)) != 0 && !isConstPos(cs.Helper, i)
		}
		sb.WriteByte(' ')
		switch {
		case dyn && cs.Mode == "key":
			k := "k" + strconv.Itoa(i)
			keys[k] = s
			sb.WriteString("{" + k + "}")
		case dyn:
			sb.WriteString("{" + strconv.Itoa(i) + "}")
		default:
			if !encodable(s) {
				return "", nil, false
			}
			if needsQuotes(s) || cs.Quote&(1<<uint(i)) != 0 {
				sb.WriteString(`"` + s + `"`)
			} else {
				sb.WriteString(s)
			}
		}
	}
	sb.WriteByte('}')
	el := make([]string, len(a))
	copy(el, a)
	return sb.String(), &expressions.KeyBuilderContextArray{Elements: el, Keys: keys}, true
}

var debugCounters = os.Getenv("VERIF_C11_DEBUG") == "1"

type eng struct {
	c     *run.Ctx
	kbOpt *expressions.KeyBuilder
	kbRaw *expressions.KeyBuilder
}

func newEng(c *run.Ctx) *eng {
	return &eng{c: c, kbOpt: stdlib.NewStdKeyBuilderEx(true), kbRaw: stdlib.NewStdKeyBuilderEx(false)}
}

func family(h string) string {
	switch h {
	case "sumi", "subi", "multi", "divi", "modi", "maxi", "mini", "sumf", "subf", "multf", "divf", "floor", "ceil", "round",
		"log10", "log2", "ln", "pow", "sqrt":
		return "arith"
	case "eq", "neq", "not", "lt", "gt", "lte", "gte", "and", "or", "if", "unless", "switch", "coalesce", "isint", "isnum":
		return "logic"
	case "len", "like", "prefix", "suffix", "substr", "select", "upper", "lower", "format", "tab":
		return "string"
	case "bucket", "bucketrange", "expbucket", "clamp":
		return "bucket"
	case "hi", "hf", "percent", "bytesize", "bytesizesi", "downscale":
		return "numfmt"
	}
	return "lookup_path_csv"
}

// ---------------------------------------------------------------- known defect classes (input classes only)

var pow10 = func() []int64 {
	p := make([]int64, 19)
	p[0] = 1
	for i := 1; i < 19; i++ {
		p[i] = p[i-1] * 10
	}
	return p
}()

func knownClass(h string, a []string) string {
	switch h {
	case "bucket", "bucketrange":
		if len(a) != 2 {
			return ""
		}
		v, st0 := intArg(a[0])
		s, st1 := intArg(a[1])
		if st0 == stOK && st1 == stOK && s > 0 && v < 0 && v%s == 0 {
			return h + ":negative-exact-multiple"
		}
	case "hi":
		if len(a) == 1 {
			if v, st := intArg(a[0]); st == stOK && v == math.MinInt64 {
				return "hi:minint64"
			}
		}
	case "hf":
		if len(a) == 1 {
			if f, st := floatArg(a[0]); st == stOK && math.Abs(f) < 1000 &&
				strings.HasPrefix(strconv.FormatFloat(math.Abs(f), 'f', 4, 64), "1000.") {
				return "hf:rounds-up-to-1000"
			}
		}
	case "bytesize", "bytesizesi":
		if len(a) >= 1 {
			n := classify(a[0])
			if n.kind == kInt && !n.inRange && n.big.Sign() > 0 && n.big.IsUint64() {
				return h + ":above-maxint64"
			}
		}
	case "expbucket":
		if len(a) == 1 {
			if v, st := intArg(a[0]); st == stOK && v >= 1 {
				for k := 15; k <= 18; k++ {
					d := v - pow10[k]
					if d < 0 {
						d = -d
					}
					if d >= 0 && d <= pow10[k]>>46 {
						return "expbucket:float-log10-boundary"
					}
				}
			}
		}
	case "lt", "gt", "lte", "gte":
		if len(a) == 2 {
			x, y := classify(a[0]), classify(a[1])
			if x.kind == kInt && y.kind == kInt && x.inRange && y.inRange && x.i != y.i && float64(x.i) == float64(y.i) {
				return "compare:distinct-int64-equal-as-float64"
			}
		}
	case "substr":
		if len(a) == 3 && a[0] != "" {
			pos, st1 := intArg(a[1])
			ln, st2 := intArg(a[2])
			if st1 == stOK && st2 == stOK && pos >= 0 && ln >= 0 {
				left := pos
				if left > int64(len(a[0])) {
					left = int64(len(a[0]))
				}
				if ln > math.MaxInt64-left {
					return "substr:pos-plus-length-overflow"
				}
			}
		}
	}
	return ""
}

// pinned witnesses of the known classes: ALWAYS executed (regression cases once repaired)
var pins = []struct {
	name, helper string
	args         []string
}{
	{"bucket-neg-multiple", "bucket", []string{"-100", "50"}},
	{"bucket-neg-multiple-1", "bucket", []string{"-7", "1"}},
	{"bucketrange-neg-multiple", "bucketrange", []string{"-100", "50"}},
	{"hi-minint64", "hi", []string{"-9223372036854775808"}},
	{"hf-rounds-to-1000", "hf", []string{"999.99999"}},
	{"hf-rounds-to-minus-1000", "hf", []string{"-999.99996"}},
	{"bytesize-2^63", "bytesize", []string{"9223372036854775808"}},
	{"bytesizesi-maxuint64", "bytesizesi", []string{"18446744073709551615", "1"}},
	{"expbucket-1e15", "expbucket", []string{"1000000000000000"}},
	{"expbucket-18-nines", "expbucket", []string{"999999999999999999"}},
	{"lt-2^53", "lt", []string{"9007199254740992", "9007199254740993"}},
	{"gte-2^53", "gte", []string{"9007199254740992", "9007199254740993"}},
	{"gt-maxint64", "gt", []string{"9223372036854775807", "9223372036854775806"}},
	{"substr-maxint-length", "substr", []string{"abc", "1", "9223372036854775807"}},
	// zero-padded decimal integers are decimal (seeded change 3: ParseInt base 0 read them as octal)
	{"padded-sumi-010", "sumi", []string{"010", "1"}},
	{"padded-sumi-08", "sumi", []string{"08", "1"}},
	{"padded-multi-neg", "multi", []string{"-010", "0100"}},
	{"padded-maxi", "maxi", []string{"007", "010", "09"}},
	{"padded-modi", "modi", []string{"0100", "07"}},
	{"padded-bucket", "bucket", []string{"0170", "050"}},
	{"padded-clamp", "clamp", []string{"010", "09", "011"}},
	{"padded-lt", "lt", []string{"09", "010"}},
	{"padded-hi", "hi", []string{"0012345"}},
	{"padded-expbucket", "expbucket", []string{"0100"}},
	{"padded-bytesize", "bytesize", []string{"02048"}},
	{"padded-substr", "substr", []string{"abcdefghijkl", "010", "01"}},
	{"padded-select", "select", []string{"a b c d e f g h i j k", "010"}},
	{"padded-sumf", "sumf", []string{"010", "0.5"}},
	{"padded-zero", "sumi", []string{"0000", "-00"}},
	// documented examples, kept as fixed regression points
	{"doc-bucket", "bucket", []string{"70", "50"}},
	{"doc-bucketrange", "bucketrange", []string{"70", "50"}},
	{"doc-select", "select", []string{"ab cd ef", "1"}},
	{"doc-sumi", "sumi", []string{"1", "2", "3"}},
	{"doc-mini", "mini", []string{"3", "4", "1"}},
	{"doc-sumf", "sumf", []string{"1", "2", "3"}},
	{"doc-floor", "floor", []string{"123.765"}},
	{"doc-len", "len", []string{"hello"}},
	{"doc-percent-1", "percent", []string{"0.1234"}},
	{"doc-percent-2", "percent", []string{"0.1234", "2"}},
	{"doc-percent-3", "percent", []string{"25", "0", "100"}},
	{"doc-percent-4", "percent", []string{"100", "4", "50", "150"}},
	{"doc-downscale", "downscale", []string{"10000"}},
	{"doc-bytesize", "bytesize", []string{"1024"}},
	{"doc-bytesizesi", "bytesizesi", []string{"1000"}},
	{"doc-basename", "basename", []string{"a/b/c"}},
	{"doc-dirname", "dirname", []string{"a/b/c"}},
	{"doc-extname", "extname", []string{"a/b/c.jpg"}},
}

// ---------------------------------------------------------------- judging

func (e *eng) eval(tmpl string, ctx *expressions.KeyBuilderContextArray, opt bool) (out string, cerr error, pan bool, pv any, stack string) {
	kb := e.kbOpt
	if !opt {
		kb = e.kbRaw
	}
	pan, pv, stack = run.Guard(func() {
		ckb, errs := kb.Compile(tmpl)
		if errs != nil {
			cerr = errs
		}
		if ckb == nil {
			out = "<no compiled expression>"
			return
		}
		out = ckb.BuildKey(ctx)
		// a compiled expression is reusable: the second evaluation must agree
		if again := ckb.BuildKey(ctx); again != out {
			out = out + " / second evaluation: " + again
		}
	})
	return
}

// judge runs one rendered case against the expectation. Returns false on a violation.
func (e *eng) judge(cs *Case, a []string, ex exp) bool {
	c := e.c
	tmpl, ctx, ok := render(cs, a)
	if !ok {
		c.Count("mode_not_expressible", 1)
		return true
	}
	out, cerr, pan, pv, stack := e.eval(tmpl, ctx, cs.Mode != "noopt")
	c.Evals(1)
	c.Count("mode_"+cs.Mode, 1)
	if admissible(cs.Helper, len(a)) && (cs.Mode == "const" || cs.Mode == "dyn") {
		c.Nontrivial(tmpl, strings.Join(ctx.Elements, "\x00"))
	}
	if ex.ok == nil {
		c.Count("abstained", 1)
		if debugCounters {
			c.Count("zabs:"+cs.Helper+":"+ex.why, 1)
		}
		return true
	}
	c.Count("comparisons", 1)
	if debugCounters {
		c.Count("zcmp:"+cs.Helper, 1)
	}
	c.Count("cmp_"+family(cs.Helper), 1)
	if ex.marker {
		c.Count("marker_checks", 1)
	}
	c.SetAdd("helpers", cs.Helper)
	fail := func(kind, msg string) bool {
		fp := knownClass(cs.Helper, a)
		if fp == "" {
			fp = cs.Helper + "/" + kind + ":" + run.Hash64(tmpl, strings.Join(ctx.Elements, "\x00"))
		}
		where := ""
		if cs.Mode != "const" && cs.Mode != "noopt" {
			where = fmt.Sprintf(" with match groups %q", ctx.Elements)
			if cs.Mode == "key" {
				where = fmt.Sprintf(" with keys %q", fmt.Sprint(ctx.Keys))
			}
		}
		c.Violation(fp, fmt.Sprintf("%s%s [%s]: %s", run.Q(tmpl), where, cs.Mode, msg), cs)
		return false
	}
	if pan {
		return fail("panic", fmt.Sprintf("panicked (%v); documented result: %s\n%s", pv, ex.desc, firstLines(stack, 14)))
	}
	if !ex.ok(out) {
		return fail("result", fmt.Sprintf("returned %s; documented result: %s", run.Q(out), ex.desc))
	}
	if cerr != nil && !isMarker(out) {
		return fail("compile-error", fmt.Sprintf("returned the documented result %s but Compile reported an error: %v", run.Q(out), cerr))
	}
	// bytesize, bytesizesi and downscale ARE a number format: what they return is defined by their documentation, not by
	// the global --noformat switch of the number displays (humanize.Enabled), which the command line clears before compiling
	if cs.Helper == "bytesize" || cs.Helper == "bytesizesi" || cs.Helper == "downscale" {
		prev := humanize.Enabled
		humanize.Enabled = false
		out2, _, pan2, _, _ := e.eval(tmpl, ctx, cs.Mode != "noopt")
		humanize.Enabled = prev
		c.Count("comparisons", 1)
		c.Count("cmp_noformat_independence", 1)
		if !pan2 && out2 != out {
			return fail("noformat", fmt.Sprintf("returned %s, but %s with number formatting switched off (--noformat); documented result: %s", run.Q(out), run.Q(out2), ex.desc))
		}
	}
	return true
}

func firstLines(s string, n int) string {
	l := strings.Split(s, "\n")
	if len(l) > n {
		l = l[:n]
	}
	return strings.Join(l, "\n")
}

// runArgs evaluates one argument tuple in the constant and the dynamic rendering (+ extras).
func (e *eng) runArgs(h string, a []string, r *run.Rand, pin string) {
	c := e.c
	if pin == "" {
		if cl := knownClass(h, a); cl != "" && c.KnownActive(cl) {
			c.Count("skipped_known_class", 1) // exactly this class, only while listed as known
			return
		}
	}
	ex := reference(h, a)
	q := quoteAll(a)
	modes := []Case{{Helper: h, Args: q, Mode: "const", Pin: pin}, {Helper: h, Args: q, Mode: "dyn", Pin: pin}}
	if r != nil {
		modes[0].Quote = uint32(r.U64())
		if r.Intn(3) > 0 {
			modes[0].Quote = 0
		}
		if r.Intn(4) == 0 {
			modes = append(modes, Case{Helper: h, Args: q, Mode: "mixed", Mask: uint32(r.U64()), Quote: uint32(r.U64()), Pin: pin})
		}
		if r.Intn(6) == 0 {
			modes = append(modes, Case{Helper: h, Args: q, Mode: "key", Pin: pin})
		}
		if r.Intn(6) == 0 {
			modes = append(modes, Case{Helper: h, Args: q, Mode: "noopt", Pin: pin})
		}
	} else {
		modes = append(modes, Case{Helper: h, Args: q, Mode: "noopt", Pin: pin}, Case{Helper: h, Args: q, Mode: "key", Pin: pin})
	}
	for i := range modes {
		e.judge(&modes[i], a, ex)
	}
	// one value however the arguments are supplied: a helper's result is a function of its argument values, so the constant
	// rendering (folded at compile time) and the rendering through match groups must print the same text - also where the
	// reference only brackets the result (rounding of a half, float formatting) or abstains
	e.agree(&modes[0], &modes[1], a)
}

func (e *eng) agree(cc, cd *Case, a []string) {
	c := e.c
	tc, xc, ok1 := render(cc, a)
	td, xd, ok2 := render(cd, a)
	if !ok1 || !ok2 || tc == td {
		return
	}
	oc, e1, p1, _, _ := e.eval(tc, xc, true)
	od, e2, p2, _, _ := e.eval(td, xd, true)
	if p1 || p2 || e1 != nil || e2 != nil || isMarker(oc) || isMarker(od) {
		return // crashes and rejected arguments are judged by the single renderings
	}
	c.Count("const_vs_dynamic_compared", 1)
	if oc != od {
		fp := knownClass(cc.Helper, a)
		if fp == "" {
			fp = cc.Helper + "/const-vs-dynamic:" + run.Hash64(tc, strings.Join(xd.Elements, "\x00"))
		}
		c.Violation(fp, fmt.Sprintf("%s returns %s, but %s with match groups %q returns %s: same argument values, different result", run.Q(tc), run.Q(oc), run.Q(td), xd.Elements, run.Q(od)), cc)
	}
}

// runSeq: one compiled expression, many rows. The usual way the helpers are used is with some arguments constant
// ({substr {0} -2 2}, {percent {0} 0 776}) and the rest taken from each line: the template is compiled once and evaluated
// on a sequence of rows. Every row must give what the documentation defines for THAT row's values - whatever rows came
// before it (no state may leak from row to row), both on the first and on a second pass over the same rows.
func (e *eng) runSeq(sp *spec, r *run.Rand) {
	c := e.c
	h := sp.helper
	a0 := sp.gen(r)
	if len(a0) == 0 {
		return
	}
	mask := uint32(r.U64())
	if r.Intn(2) == 0 {
		mask = 1 // the common shape: the first argument from the line, the others constant
	}
	cs := &Case{Helper: h, Args: quoteAll(a0), Mode: "mixed", Mask: mask, Pin: "seq"}
	tmpl0, _, ok := render(cs, a0)
	if !ok || !strings.Contains(tmpl0, "{0}") && !strings.Contains(tmpl0, "{1}") && !strings.Contains(tmpl0, "{2}") {
		return
	}
	type row struct {
		a   []string
		ctx *expressions.KeyBuilderContextArray
	}
	rows := []row{}
	for k := 0; k < 6; k++ {
		ak := append([]string(nil), a0...)
		if k > 0 {
			alt := sp.gen(r)
			for i := range ak {
				if mask&(1<<uint(i)) != 0 && !isConstPos(h, i) && i < len(alt) {
					ak[i] = alt[i]
				}
			}
		}
		if cl := knownClass(h, ak); cl != "" && c.KnownActive(cl) {
			continue
		}
		t, ctx, ok := render(cs, ak)
		if !ok || t != tmpl0 {
			continue
		}
		rows = append(rows, row{ak, ctx})
	}
	if len(rows) < 2 {
		return
	}
	var ckb *expressions.CompiledKeyBuilder
	pan, pv, _ := run.Guard(func() { ckb, _ = e.kbOpt.Compile(tmpl0) })
	if pan || ckb == nil {
		_ = pv
		return // compile problems are judged by the single-row cases
	}
	c.Count("sequence_cases", 1)
	for pass := 0; pass < 2; pass++ {
		for k, rw := range rows {
			ex := reference(h, rw.a)
			if ex.ok == nil {
				// the documentation does not say what these values give - but whatever it is, it is a function of the
				// row's values: the same expression compiled afresh and given only this row is the reference
				var fresh string
				fp, _, _ := run.Guard(func() {
					if f, _ := e.kbOpt.Compile(tmpl0); f != nil {
						fresh = f.BuildKey(rw.ctx)
					}
				})
				if fp {
					continue
				}
				want := fresh
				ex = exp{ok: func(o string) bool { return o == want }, desc: fmt.Sprintf("%s (what the same expression, compiled afresh, returns for this row alone)", run.Q(want))}
				c.Count("sequence_rows_vs_fresh_compile", 1)
			}
			var out string
			pan, pv, _ := run.Guard(func() { out = ckb.BuildKey(rw.ctx) })
			c.Evals(1)
			c.Count("sequence_rows_compared", 1)
			if pan || !ex.ok(out) {
				fp := knownClass(h, rw.a)
				if fp == "" {
					fp = h + "/sequence:" + run.Hash64(tmpl0, strings.Join(rw.ctx.Elements, "\x00"))
				}
				prev := "(first row)"
				if k > 0 {
					prev = fmt.Sprintf("%q", rows[k-1].ctx.Elements)
				} else if pass > 0 {
					prev = fmt.Sprintf("%q", rows[len(rows)-1].ctx.Elements)
				}
				got := run.Q(out)
				if pan {
					got = fmt.Sprintf("a panic (%v)", pv)
				}
				c.Violation(fp, fmt.Sprintf("%s compiled once and evaluated row after row: row %d of pass %d, match groups %q (previous row %s), returned %s; documented result: %s",
					run.Q(tmpl0), k+1, pass+1, rw.ctx.Elements, prev, got, ex.desc), cs)
				return
			}
		}
	}
}

const block = 128

type group struct {
	Group string `json:"group"`
	Block int    `json:"block"`
	N     int    `json:"n"`
}

func (e *eng) runBlock(sp *spec, b, n int) {
	c := e.c
	g := group{Group: sp.name, Block: b, N: n}
	c.Begin(&g, 120*time.Second)
	defer c.End()
	for k := b * block; k < (b+1)*block && k < n; k++ {
		r := c.Rand("case", sp.name, k)
		a := sp.gen(r)
		if b == 0 && k < 1 && sp.weight > 1 {
			c.Sample(map[string]any{"helper": sp.helper, "args": a})
		}
		e.runArgs(sp.helper, a, r, "")
		if k%4 == 0 {
			e.runSeq(sp, r)
		}
		if c.Violations() >= 20 {
			return
		}
	}
}

func (e *eng) counts(sp *spec) int {
	if sp.weight == 0 {
		return e.c.N(24, 96)
	}
	return e.c.N(1500, 12000) * sp.weight
}

// Run is the C11 entry point.
func Run(c *run.Ctx) {
	e := newEng(c)
	all := specs()
	if c.Replay != nil {
		var probe map[string]json.RawMessage
		if err := json.Unmarshal(c.Replay, &probe); err != nil {
			c.Inconclusive("bad replay: " + err.Error())
			return
		}
		if _, isGroup := probe["group"]; isGroup {
			var g group
			json.Unmarshal(c.Replay, &g)
			for i := range all {
				if all[i].name == g.Group {
					e.runBlock(&all[i], g.Block, g.N)
					return
				}
			}
			c.Inconclusive("replay: unknown group " + g.Group)
			return
		}
		var cs Case
		if err := json.Unmarshal(c.Replay, &cs); err != nil {
			c.Inconclusive("bad replay: " + err.Error())
			return
		}
		c.Begin(&cs, 60*time.Second)
		a := cs.args()
		e.judge(&cs, a, reference(cs.Helper, a))
		c.End()
		return
	}
	idx := 0
	for i := range pins {
		if c.Mine(idx) {
			p := pins[i]
			c.Begin(map[string]any{"pin": p.name, "helper": p.helper, "args": quoteAll(p.args)}, 60*time.Second)
			e.runArgs(p.helper, p.args, nil, p.name)
			c.Count("pinned_witnesses", 1)
			c.End()
		}
		idx++
	}
	// exhaustive small domains where a law is stated for ALL values
	if c.Mine(idx) {
		e.dense()
	}
	idx++
	for i := range all {
		n := e.counts(&all[i])
		for b := 0; b*block < n; b++ {
			if c.Mine(idx) {
				e.runBlock(&all[i], b, n)
			}
			idx++
			if c.Violations() >= 20 {
				return
			}
		}
	}
}

// dense: every (v, size) in a small window around zero for bucket/bucketrange/clamp,
// every power of ten +-1 for expbucket / hi, every digit count for hi.
func (e *eng) dense() {
	c := e.c
	c.Begin(map[string]any{"dense": true}, 300*time.Second)
	defer c.End()
	it := func(v int64) string { return strconv.FormatInt(v, 10) }
	for s := int64(1); s <= 12; s++ {
		for v := int64(-40); v <= 40; v++ {
			e.runArgs("bucket", []string{it(v), it(s)}, nil, "")
			e.runArgs("bucketrange", []string{it(v), it(s)}, nil, "")
		}
	}
	for lo := int64(-3); lo <= 3; lo++ {
		for hi := lo; hi <= 4; hi++ {
			for v := int64(-5); v <= 6; v++ {
				e.runArgs("clamp", []string{it(v), it(lo), it(hi)}, nil, "")
			}
		}
	}
	for k := 0; k <= 18; k++ {
		for d := int64(-1); d <= 1; d++ {
			for _, sign := range []int64{1, -1} {
				v := (pow10[k] + d) * sign
				e.runArgs("hi", []string{it(v)}, nil, "")
				e.runArgs("hf", []string{it(v)}, nil, "")
				e.runArgs("downscale", []string{it(v)}, nil, "")
				if sign > 0 {
					e.runArgs("expbucket", []string{it(v)}, nil, "")
					e.runArgs("bytesizesi", []string{it(v)}, nil, "")
				}
			}
		}
	}
	p := big.NewInt(1)
	for k := 0; k <= 6; k++ {
		for d := int64(-1); d <= 1; d++ {
			v := new(big.Int).Add(p, big.NewInt(d))
			e.runArgs("bytesize", []string{v.String()}, nil, "")
			e.runArgs("bytesize", []string{v.String(), "2"}, nil, "")
		}
		p.Mul(p, big.NewInt(1024))
	}
	// zero-padded decimal integers 00..012, 007, 08, 09, 010, 0100, -010, 0000 ... through every helper that takes integers
	pads := []string{"00", "01", "02", "03", "04", "05", "06", "07", "08", "09", "010", "011", "012", "007", "0100", "-010", "0000",
		"-08", "-09", "-007", "0777", "000", "0012", "-0100"}
	for _, x := range pads {
		for _, y := range []string{"1", "3", "08", "010", "-007"} {
			for _, h := range []string{"sumi", "subi", "multi", "divi", "modi", "maxi", "mini", "lt", "gt", "lte", "gte", "sumf", "subf", "multf", "divf"} {
				e.runArgs(h, []string{x, y}, nil, "")
				e.runArgs(h, []string{y, x}, nil, "")
			}
			e.runArgs("clamp", []string{x, "-" + y, "0" + strings.TrimPrefix(y, "-")}, nil, "")
			e.runArgs("substr", []string{"abcdefghijklmnop", x, y}, nil, "")
		}
		e.runArgs("sumi", []string{"1", x, "02"}, nil, "")
		for _, h := range []string{"bucket", "bucketrange"} {
			e.runArgs(h, []string{x, "3"}, nil, "")
			e.runArgs(h, []string{x, "010"}, nil, "")
			e.runArgs(h, []string{"25", "0" + strings.TrimPrefix(x, "-")}, nil, "")
		}
		for _, h := range []string{"expbucket", "hi", "hf", "isint", "isnum", "floor", "ceil", "round", "sqrt", "bytesize", "bytesizesi", "downscale", "percent"} {
			e.runArgs(h, []string{x}, nil, "")
		}
		e.runArgs("round", []string{"1.23456", "0" + strings.TrimPrefix(x, "-")}, nil, "")
		e.runArgs("percent", []string{x, "01", "0200"}, nil, "")
		e.runArgs("downscale", []string{"012345678", "0" + strings.TrimPrefix(x, "-")}, nil, "")
		e.runArgs("select", []string{"f0 f1 f2 f3 f4 f5 f6 f7 f8 f9 f10 f11 f12", x}, nil, "")
		e.runArgs("pow", []string{x, "02"}, nil, "")
	}
	c.Count("dense_sweeps", 1)
}
