package p11

// Reference model for C11. Every function here is written from
// /repo/docs/usage/expressions.md and the property statement, never from the
// code under test. Where the documentation states a law the law is checked;
// where it is silent or ambiguous the reference ABSTAINS (exp.ok == nil).

import (
	"encoding/csv"
	"fmt"
	"math"
	"math/big"
	"regexp"
	"strconv"
	"strings"
	"unicode"
	"unicode/utf8"
)

// exp is what the documentation allows as the result of one helper call.
type exp struct {
	desc   string                // human-readable expectation (for the message)
	ok     func(out string) bool // nil = abstain
	marker bool                  // the expectation is "a documented error marker"
	why    string                // reason of an abstention
}

func abstain(why string) exp { return exp{why: why} }

func exact(s string) exp {
	return exp{desc: fmt.Sprintf("%q", s), ok: func(o string) bool { return o == s }}
}

func oneOf(ss ...string) exp {
	var d []string
	for _, s := range ss {
		d = append(d, fmt.Sprintf("%q", s))
	}
	return exp{desc: "one of " + strings.Join(d, " | "), ok: func(o string) bool {
		for _, s := range ss {
			if o == s {
				return true
			}
		}
		return false
	}}
}

func pred(desc string, f func(string) bool) exp { return exp{desc: desc, ok: f} }

// documented error markers (docs/usage/expressions.md, "Errors")
var markers = map[string]bool{
	"<BAD-TYPE>": true, "<PARSE-ERROR>": true, "<ARGN>": true, "<CONST>": true, "<ENUM>": true,
	"<NAME>": true, "<EMPTY>": true, "<FILE>": true, "<VALUE>": true,
}

func isMarker(o string) bool { return markers[o] }

func wantMarker() exp {
	return exp{desc: "a documented error marker (<BAD-TYPE>, <ARGN>, <VALUE>, <CONST>, ...)", ok: isMarker, marker: true}
}

// orMarker: inputs outside the documented domain where both "reject" and
// "compute the right value" are acceptable, but a wrong value is not.
func orMarker(e exp) exp {
	if e.ok == nil {
		return e
	}
	f := e.ok
	return exp{desc: e.desc + " (or an error marker)", ok: func(o string) bool { return isMarker(o) || f(o) }}
}

// ---------------------------------------------------------------- truthiness

// "Truthiness is the presence of a value. False is an empty value (or only whitespace)"
func truthyDoc(s string) (truthy, clear bool) {
	if s == "" {
		return false, true
	}
	allASCIIWS := true
	for _, r := range s {
		if !unicode.IsSpace(r) {
			return true, true
		}
	}
	for i := 0; i < len(s); i++ {
		switch s[i] {
		case ' ', '\t', '\n', '\r', '\v', '\f':
		default:
			allASCIIWS = false
		}
	}
	if allASCIIWS {
		return false, true
	}
	return false, false // only exotic unicode white space: not defined
}

func isWSOnly(s string) bool {
	if s == "" {
		return false
	}
	for _, r := range s {
		if !unicode.IsSpace(r) {
			return false
		}
	}
	return true
}

func wantTruth(b bool) exp {
	if b {
		return pred("a truthy (non-blank) value", func(o string) bool { t, c := truthyDoc(o); return c && t })
	}
	return pred("a falsy (empty) value", func(o string) bool { t, c := truthyDoc(o); return c && !t })
}

func bool1(b bool) exp {
	if b {
		return exact("1")
	}
	return exact("")
}

// ---------------------------------------------------------------- numbers

// An optional '-' followed by decimal digits denotes its decimal value; leading
// zeros are allowed (007, 010, 08, -09, 0000 are ubiquitous in logs and must
// never be read as anything but 7, 10, 8, -9, 0). Everything else (+5, 0x10,
// 1_000, exponents, zero-padded decimals with a fraction) stays undefined.
var (
	reInt = regexp.MustCompile(`^-?[0-9]+$`)
	reDec = regexp.MustCompile(`^-?(0|[1-9][0-9]*)\.[0-9]+$`)
)

// canonInt is the canonical decimal text of a kInt string ("007" -> "7", "-00" -> "0")
func canonInt(s string) string {
	b, ok := new(big.Int).SetString(s, 10)
	if !ok {
		return s
	}
	return b.String()
}

const (
	kInt  = iota // decimal integer: optional '-', digits (leading zeros allowed)
	kDec         // canonical decimal with fraction digits
	kNon         // clearly not a number in any notation
	kGrey        // anything else: not judged
)

type num struct {
	kind      int
	i         int64
	inRange   bool // kInt fits int64
	big       *big.Int
	f         float64
	fok       bool // f finite
	intValued bool // kDec with an all-zero fraction
}

var infnan = map[string]bool{"inf": true, "+inf": true, "-inf": true, "infinity": true, "+infinity": true,
	"-infinity": true, "nan": true, "+nan": true, "-nan": true}

// characters that occur in no numeric notation (decimal, hex float, exponent, inf/nan, digit separators)
const poison = "ghjklmqrsuvwzGHJKLMQRSUVWZ#$%&()*/:;<=>?@[]^|~!"

func classify(s string) num {
	if len(s) <= 40 && reInt.MatchString(s) {
		n := num{kind: kInt}
		n.big, _ = new(big.Int).SetString(s, 10)
		if n.big.IsInt64() {
			n.i = n.big.Int64()
			n.inRange = true
		}
		f, err := strconv.ParseFloat(s, 64)
		n.f, n.fok = f, err == nil && !math.IsInf(f, 0)
		return n
	}
	if len(s) <= 40 && reDec.MatchString(s) {
		n := num{kind: kDec}
		f, err := strconv.ParseFloat(s, 64)
		n.f, n.fok = f, err == nil && !math.IsInf(f, 0)
		frac := s[strings.IndexByte(s, '.')+1:]
		n.intValued = strings.Trim(frac, "0") == ""
		return n
	}
	hasDigit := false
	for i := 0; i < len(s); i++ {
		if s[i] >= '0' && s[i] <= '9' {
			hasDigit = true
		}
	}
	if !hasDigit && !infnan[strings.ToLower(strings.TrimSpace(s))] {
		return num{kind: kNon}
	}
	if strings.ContainsAny(s, poison) {
		return num{kind: kNon}
	}
	return num{kind: kGrey}
}

const (
	stOK = iota
	stMarker
	stAbstain
)

// integer position of a helper documented to take integers
func intArg(s string) (int64, int) {
	n := classify(s)
	switch n.kind {
	case kInt:
		if n.inRange {
			return n.i, stOK
		}
		return 0, stAbstain // not representable: not defined
	case kDec:
		if n.intValued {
			return 0, stAbstain
		}
		return 0, stMarker // "unexpected type"
	case kNon:
		return 0, stMarker
	}
	return 0, stAbstain
}

func floatArg(s string) (float64, int) {
	n := classify(s)
	switch n.kind {
	case kInt, kDec:
		if n.fok {
			return n.f, stOK
		}
		return 0, stAbstain
	case kNon:
		return 0, stMarker
	}
	return 0, stAbstain
}

// combine folds argument states: abstain wins, then marker.
func combine(sts ...int) int {
	r := stOK
	for _, s := range sts {
		if s == stAbstain {
			return stAbstain
		}
		if s == stMarker {
			r = stMarker
		}
	}
	return r
}

func notOK(st int, what string) exp {
	if st == stMarker {
		return wantMarker()
	}
	return abstain(what + ": argument outside the documented number notation")
}

var (
	bigMaxI = big.NewInt(math.MaxInt64)
	bigMinI = big.NewInt(math.MinInt64)
)

func fits(b *big.Int) bool { return b.Cmp(bigMinI) >= 0 && b.Cmp(bigMaxI) <= 0 }

// parse a helper's output as a float / rational
var reOutNum = regexp.MustCompile(`^-?[0-9]+(\.[0-9]+)?$`)

func outRat(o string) (*big.Rat, bool) {
	if len(o) > 2000 || !reOutNum.MatchString(o) {
		return nil, false
	}
	return new(big.Rat).SetString(o)
}

func closeTo(want float64, rel, abs float64) exp {
	return pred(fmt.Sprintf("a plain decimal number equal to %s (rel. tolerance %g)", strconv.FormatFloat(want, 'g', -1, 64), rel),
		func(o string) bool {
			if !reOutNum.MatchString(o) {
				return false
			}
			g, err := strconv.ParseFloat(o, 64)
			if err != nil {
				return false
			}
			if g == want {
				return true
			}
			return math.Abs(g-want) <= rel*math.Abs(want)+abs
		})
}

// ---------------------------------------------------------------- the reference

// admissible arities per the "Syntax:" lines (lo..hi, hi<0 = unbounded)
var arity = map[string][2]int{
	"coalesce": {1, -1}, "select": {2, 2}, "bucket": {2, 2}, "bucketrange": {2, 2}, "expbucket": {1, 1},
	"sumi": {2, -1}, "subi": {2, -1}, "multi": {2, -1}, "divi": {2, -1}, "modi": {2, -1}, "maxi": {2, -1}, "mini": {2, -1},
	"sumf": {2, -1}, "subf": {2, -1}, "multf": {2, -1}, "divf": {2, -1},
	"floor": {1, 1}, "ceil": {1, 1}, "round": {1, 2}, "log10": {1, 1}, "log2": {1, 1}, "ln": {1, 1}, "pow": {2, 2}, "sqrt": {1, 1},
	"clamp": {3, 3}, "len": {1, 1}, "if": {2, 3}, "unless": {2, 2}, "switch": {2, -1},
	"eq": {2, 2}, "neq": {2, 2}, "not": {1, 1}, "lt": {2, 2}, "gt": {2, 2}, "lte": {2, 2}, "gte": {2, 2},
	"and": {1, -1}, "or": {1, -1}, "like": {2, 2}, "prefix": {2, 2}, "suffix": {2, 2}, "isint": {1, 1}, "isnum": {1, 1},
	"format": {1, -1}, "substr": {3, 3}, "upper": {1, 1}, "lower": {1, 1}, "hf": {1, 1}, "hi": {1, 1},
	"percent": {1, 4}, "bytesize": {1, 2}, "bytesizesi": {1, 2}, "downscale": {1, 2},
	"tab": {1, -1}, "csv": {1, -1}, "lookup": {2, 3}, "haskey": {2, 3},
	"basename": {1, 1}, "dirname": {1, 1}, "extname": {1, 1},
}

// helpers whose documentation gives an exact argument count: any other count is <ARGN>
var strictArity = map[string]bool{
	"select": true, "bucket": true, "bucketrange": true, "expbucket": true, "sumi": true, "subi": true, "multi": true,
	"divi": true, "modi": true, "sumf": true, "subf": true, "multf": true, "divf": true, "floor": true, "ceil": true,
	"round": true, "log10": true, "log2": true, "ln": true, "sqrt": true, "clamp": true, "len": true, "if": true,
	"unless": true, "not": true, "lt": true, "gt": true, "lte": true, "gte": true, "like": true, "prefix": true,
	"suffix": true, "isint": true, "isnum": true, "substr": true, "upper": true, "lower": true, "hf": true, "hi": true,
	"percent": true, "bytesize": true, "bytesizesi": true, "downscale": true, "lookup": true, "haskey": true,
	"basename": true, "dirname": true, "extname": true,
}

func admissible(h string, n int) bool {
	a, ok := arity[h]
	if !ok {
		return false
	}
	return n >= a[0] && (a[1] < 0 || n <= a[1])
}

func reference(h string, a []string) exp {
	if _, ok := arity[h]; !ok {
		return abstain("helper not modelled")
	}
	if !admissible(h, len(a)) {
		if strictArity[h] {
			return wantMarker() // "<ARGN> Function to not support a variation with the given argument count"
		}
		return abstain("argument count outside the documented syntax")
	}
	switch h {
	case "coalesce":
		// "choosing the first non-empty result": a blank (white-space only) result is not empty
		for _, s := range a {
			if s != "" {
				return exact(s)
			}
		}
		return exact("")
	case "select":
		return refSelect(a)
	case "bucket", "bucketrange":
		return refBucket(h, a)
	case "expbucket":
		v, st := intArg(a[0])
		if st != stOK {
			return notOK(st, h)
		}
		if v < 1 {
			return abstain("expbucket: value < 1 not defined")
		}
		p := int64(1)
		for p <= v/10 {
			p *= 10
		}
		return exact(strconv.FormatInt(p, 10)) // the power of ten p with p <= v < 10p
	case "sumi", "subi", "multi", "divi", "modi", "maxi", "mini":
		return refIntFold(h, a)
	case "sumf", "subf", "multf", "divf", "pow":
		return refFloatFold(h, a)
	case "floor", "ceil":
		f, st := floatArg(a[0])
		if st != stOK {
			return notOK(st, h)
		}
		if math.Abs(f) >= 9.2e18 {
			return abstain("floor/ceil: beyond the integer range")
		}
		r := math.Floor(f)
		if h == "ceil" {
			r = math.Ceil(f)
		}
		return exact(strconv.FormatInt(int64(r), 10))
	case "round":
		return refRound(a)
	case "log10", "log2", "ln", "sqrt":
		f, st := floatArg(a[0])
		if st != stOK {
			return notOK(st, h)
		}
		if f < 0 || (f == 0 && h != "sqrt") {
			return abstain("log/sqrt outside the real domain: NaN/Inf formatting not defined")
		}
		var w float64
		switch h {
		case "log10":
			w = math.Log10(f)
		case "log2":
			w = math.Log2(f)
		case "ln":
			w = math.Log(f)
		case "sqrt":
			w = math.Sqrt(f)
		}
		return closeTo(w, 1e-9, 1e-12)
	case "clamp":
		v, st0 := intArg(a[0])
		lo, st1 := intArg(a[1])
		hi, st2 := intArg(a[2])
		if st := combine(st0, st1, st2); st != stOK {
			return notOK(st, h)
		}
		if lo > hi {
			return abstain("clamp: min > max not defined")
		}
		switch {
		case v < lo:
			return exact("min")
		case v > hi:
			return exact("max")
		}
		if c := canonInt(a[0]); c != a[0] {
			return oneOf(a[0], c) // zero-padded input: the value as given or as a plain integer
		}
		return exact(a[0])
	case "len":
		b, r := len(a[0]), utf8.RuneCountInString(a[0])
		if b == r {
			return exact(strconv.Itoa(b))
		}
		return oneOf(strconv.Itoa(b), strconv.Itoa(r)) // bytes vs characters: not defined
	case "if":
		t, c := truthyDoc(a[0])
		if !c {
			return abstain("if: exotic white space")
		}
		if t {
			return exact(a[1])
		}
		if len(a) == 3 {
			return exact(a[2])
		}
		return exact("")
	case "unless":
		t, c := truthyDoc(a[0])
		if !c {
			return abstain("unless: exotic white space")
		}
		if !t {
			return exact(a[1])
		}
		return exact("")
	case "switch":
		for i := 0; i+1 < len(a); i += 2 {
			t, c := truthyDoc(a[i])
			if !c {
				return abstain("switch: exotic white space")
			}
			if t {
				return exact(a[i+1])
			}
		}
		if len(a)%2 == 1 {
			return exact(a[len(a)-1])
		}
		return exact("")
	case "eq", "neq":
		same := a[0] == a[1]
		if !same {
			if strings.TrimSpace(a[0]) == strings.TrimSpace(a[1]) {
				return abstain("eq: differ only in white space")
			}
			x, y := classify(a[0]), classify(a[1])
			if x.kind != kNon && y.kind != kNon {
				if x.kind == kGrey || y.kind == kGrey {
					return abstain("eq: two number-like strings")
				}
				if x.fok && y.fok && x.f == y.f {
					return abstain("eq: numerically equal, textually different")
				}
			}
		}
		return bool1(same == (h == "eq"))
	case "not":
		if isWSOnly(a[0]) {
			return abstain("not: blank argument (docs: a == \"\", truthiness: blank is false)")
		}
		return bool1(a[0] == "")
	case "lt", "gt", "lte", "gte":
		return refCompare(h, a)
	case "and", "or":
		all, any := true, false
		for _, s := range a {
			if isWSOnly(s) {
				return abstain("and/or: blank argument kept out (docs say truthy, not defined further)")
			}
			if s == "" {
				all = false
			} else {
				any = true
			}
		}
		if h == "and" {
			return wantTruth(all)
		}
		return wantTruth(any)
	case "like", "prefix", "suffix":
		t, c := truthyDoc(a[0])
		if !c || !t {
			return abstain("like/prefix/suffix: falsy value cannot be told apart from a failed check")
		}
		var m bool
		switch h {
		case "like":
			m = strings.Contains(a[0], a[1])
		case "prefix":
			m = strings.HasPrefix(a[0], a[1])
		case "suffix":
			m = strings.HasSuffix(a[0], a[1])
		}
		return wantTruth(m)
	case "isint", "isnum":
		n := classify(a[0])
		switch n.kind {
		case kInt:
			if h == "isnum" {
				if !n.fok {
					return abstain("isnum: beyond float range")
				}
				return wantTruth(true)
			}
			if !n.inRange {
				return abstain("isint: beyond the integer range")
			}
			return wantTruth(true)
		case kDec:
			if h == "isnum" {
				if !n.fok {
					return abstain("isnum: beyond float range")
				}
				return wantTruth(true)
			}
			if n.intValued {
				return abstain("isint: integer-valued decimal")
			}
			return wantTruth(false)
		case kNon:
			return wantTruth(false)
		}
		return abstain("isint/isnum: notation not defined by the documentation")
	case "format":
		args := make([]any, len(a)-1)
		for i, s := range a[1:] {
			args[i] = s
		}
		return exact(fmt.Sprintf(a[0], args...)) // "Formats a string based on fmt.Sprintf"
	case "substr":
		return refSubstr(a)
	case "upper", "lower":
		if !utf8.ValidString(a[0]) {
			return abstain("upper/lower: invalid UTF-8")
		}
		for _, r := range a[0] {
			if r > 127 && !strings.ContainsRune(safeLetters, r) {
				return abstain("upper/lower: special-casing characters not defined")
			}
		}
		m := unicode.ToUpper
		if h == "lower" {
			m = unicode.ToLower
		}
		return exact(strings.Map(m, a[0]))
	case "hi":
		v, st := intArg(a[0])
		if st != stOK {
			return notOK(st, h)
		}
		return exact(groupDigits(strconv.FormatInt(v, 10)))
	case "hf":
		f, st := floatArg(a[0])
		if st != stOK {
			return notOK(st, h)
		}
		return exact(groupDigits(strconv.FormatFloat(f, 'f', 4, 64)))
	case "percent":
		return refPercent(a)
	case "bytesize", "bytesizesi", "downscale":
		return refUnits(h, a)
	case "tab":
		return exact(strings.Join(a, "\t"))
	case "csv":
		return refCsv(a)
	case "lookup", "haskey":
		return refLookup(h, a)
	case "basename", "dirname", "extname":
		return refPath(h, a[0])
	}
	return abstain("helper not modelled")
}

// letters beyond ASCII whose case mapping is one-to-one and uncontroversial
const safeLetters = "éÉüÜñÑåÅøØçÇжЖяЯдДλΛωΩ"

// groupDigits inserts a comma before every group of three digits, counted from
// the right end of the integer part, and nowhere else.
func groupDigits(s string) string {
	sign := ""
	if strings.HasPrefix(s, "-") {
		sign, s = "-", s[1:]
	}
	frac := ""
	if i := strings.IndexByte(s, '.'); i >= 0 {
		s, frac = s[:i], s[i:]
	}
	var sb strings.Builder
	for i := 0; i < len(s); i++ {
		if i > 0 && (len(s)-i)%3 == 0 {
			sb.WriteByte(',')
		}
		sb.WriteByte(s[i])
	}
	return sign + sb.String() + frac
}

// {select {0} 1}: "whitespace-separated value, split the values and select the item at index"
func refSelect(a []string) exp {
	idx, st := intArg(a[1])
	if st != stOK {
		return notOK(st, "select")
	}
	s := a[0]
	for _, r := range s {
		switch {
		case r == ' ' || r == '\t' || r == '\n':
		case r == '"' || r == 0 || r == utf8.RuneError || unicode.IsSpace(r):
			return abstain("select: quotes / NUL / other white space not defined")
		}
	}
	if s != "" && (s[0] == ' ' || s[0] == '\t' || s[0] == '\n') {
		return abstain("select: leading white space not defined")
	}
	f := strings.FieldsFunc(s, func(r rune) bool { return r == ' ' || r == '\t' || r == '\n' })
	if idx < 0 || idx >= int64(len(f)) {
		return abstain("select: index out of range not defined")
	}
	return exact(f[idx])
}

func refBucket(h string, a []string) exp {
	v, st0 := intArg(a[0])
	s, st1 := intArg(a[1])
	if st := combine(st0, st1); st != stOK {
		return notOK(st, h)
	}
	if s <= 0 {
		return wantMarker() // "<VALUE> Value is out of range or invalid"
	}
	// the unique b with b = k*s and b <= v < b+s
	bv, bs := big.NewInt(v), big.NewInt(s)
	q := new(big.Int).Div(bv, bs) // Euclidean; s > 0 so this is floor
	b := q.Mul(q, bs)
	if !fits(b) {
		return abstain("bucket: bucket start not representable")
	}
	if h == "bucket" {
		want := b.String()
		return exp{desc: fmt.Sprintf("%q (the multiple b of %d with b <= %d < b+%d)", want, s, v, s), ok: func(o string) bool {
			g, ok := new(big.Int).SetString(o, 10)
			if !ok || o != g.String() {
				return false
			}
			// the law itself
			if new(big.Int).Mod(g, bs).Sign() != 0 {
				return false
			}
			d := new(big.Int).Sub(bv, g)
			return d.Sign() >= 0 && d.Cmp(bs) < 0
		}}
	}
	e := new(big.Int).Add(b, bs)
	e.Sub(e, big.NewInt(1))
	if !fits(e) {
		return abstain("bucketrange: bucket end not representable")
	}
	return exact(b.String() + " - " + e.String())
}

func refIntFold(h string, a []string) exp {
	vals := make([]int64, len(a))
	sts := make([]int, len(a))
	for i, s := range a {
		vals[i], sts[i] = intArg(s)
	}
	// division by zero is not defined by the documentation (and is C08's business): never judged
	if h == "divi" || h == "modi" {
		for i := 1; i < len(a); i++ {
			if sts[i] == stOK && vals[i] == 0 {
				return abstain("divi/modi: zero divisor not defined")
			}
		}
	}
	if st := combine(sts...); st != stOK {
		return notOK(st, h)
	}
	acc := big.NewInt(vals[0])
	for _, v := range vals[1:] {
		b := big.NewInt(v)
		switch h {
		case "sumi":
			acc.Add(acc, b)
		case "subi":
			acc.Sub(acc, b)
		case "multi":
			acc.Mul(acc, b)
		case "divi", "modi":
			q, r := new(big.Int).QuoRem(acc, b, new(big.Int))
			if r.Sign() != 0 && (acc.Sign() < 0 || b.Sign() < 0) {
				return abstain("divi/modi: rounding direction for negative operands not defined")
			}
			if h == "divi" {
				acc = q
			} else {
				acc = r
			}
		case "maxi":
			if b.Cmp(acc) > 0 {
				acc = b
			}
		case "mini":
			if b.Cmp(acc) < 0 {
				acc = b
			}
		}
		if !fits(acc) {
			return abstain("integer overflow not defined")
		}
	}
	return exact(acc.String())
}

func refFloatFold(h string, a []string) exp {
	vals := make([]float64, len(a))
	sts := make([]int, len(a))
	for i, s := range a {
		vals[i], sts[i] = floatArg(s)
	}
	if st := combine(sts...); st != stOK {
		return notOK(st, h)
	}
	acc := vals[0]
	for _, v := range vals[1:] {
		switch h {
		case "sumf":
			acc += v
		case "subf":
			acc -= v
		case "multf":
			acc *= v
		case "divf":
			acc /= v
		case "pow":
			acc = math.Pow(acc, v)
		}
		if math.IsNaN(acc) || math.IsInf(acc, 0) {
			return abstain("NaN/Inf formatting not defined")
		}
	}
	if h == "pow" {
		if acc != 0 && math.Abs(acc) < 1e-300 {
			return abstain("pow: denormal range")
		}
		return closeTo(acc, 1e-9, 0)
	}
	return closeTo(acc, 1e-12, 0)
}

// {round val [precision=0]}: the multiple of 10^-p nearest to the value; exact ties are not defined.
func refRound(a []string) exp {
	f, st0 := floatArg(a[0])
	p, st1 := int64(0), stOK
	if len(a) == 2 {
		p, st1 = intArg(a[1])
	}
	if st := combine(st0, st1); st != stOK {
		return notOK(st, "round")
	}
	if p < 0 || p > 30 {
		return abstain("round: negative / huge precision not defined")
	}
	x := new(big.Rat).SetFloat64(f)
	scale := new(big.Rat).SetInt(new(big.Int).Exp(big.NewInt(10), big.NewInt(p), nil))
	sc := new(big.Rat).Mul(x, scale)
	twice := new(big.Rat).Mul(sc, big.NewRat(2, 1))
	if twice.IsInt() && twice.Num().Bit(0) == 1 {
		return abstain("round: exact tie, rounding rule not defined")
	}
	// floor(sc + 1/2)
	sh := new(big.Rat).Add(sc, big.NewRat(1, 2))
	n := new(big.Int).Div(sh.Num(), sh.Denom()) // Euclidean with positive denominator = floor
	want := new(big.Rat).Quo(new(big.Rat).SetInt(n), scale)
	return pred(fmt.Sprintf("the decimal %s (value nearest to %s with %d decimals)", want.FloatString(int(p)), a[0], p),
		func(o string) bool {
			g, ok := outRat(o)
			return ok && g.Cmp(want) == 0
		})
}

// {lt a b} ...: "Uses truthy-logic to compare two integers."
func refCompare(h string, a []string) exp {
	x, y := classify(a[0]), classify(a[1])
	if x.kind == kGrey || y.kind == kGrey {
		return abstain("compare: number notation not defined")
	}
	if x.kind == kNon || y.kind == kNon {
		return wantMarker()
	}
	var c int
	ints := x.kind == kInt && y.kind == kInt
	if ints {
		if !x.inRange || !y.inRange {
			return abstain("compare: beyond the integer range")
		}
		c = x.big.Cmp(y.big)
	} else {
		// decimals are outside "two integers": rejecting them or comparing their values are both fine
		sx, sy := a[0], a[1]
		if x.kind == kInt {
			sx = canonInt(sx)
		}
		if y.kind == kInt {
			sy = canonInt(sy)
		}
		rx, ok1 := new(big.Rat).SetString(sx)
		ry, ok2 := new(big.Rat).SetString(sy)
		if !ok1 || !ok2 || !x.fok || !y.fok {
			return abstain("compare: unparsable decimal")
		}
		c = rx.Cmp(ry)
		fc := 0
		if x.f < y.f {
			fc = -1
		} else if x.f > y.f {
			fc = 1
		}
		if fc != c {
			return abstain("compare: decimals closer than float precision")
		}
	}
	var r bool
	switch h {
	case "lt":
		r = c < 0
	case "gt":
		r = c > 0
	case "lte":
		r = c <= 0
	case "gte":
		r = c >= 0
	}
	e := wantTruth(r)
	e.desc += fmt.Sprintf(" (%s %s %s is %v)", a[0], h, a[1], r)
	if !ints {
		return orMarker(e)
	}
	return e
}

// {substr {0} pos length}: "the substring of the first argument starting at pos for length"
func refSubstr(a []string) exp {
	pos, st1 := intArg(a[1])
	ln, st2 := intArg(a[2])
	st := combine(st1, st2)
	s := a[0]
	if s == "" {
		if st == stOK {
			return exact("")
		}
		return abstain("substr: empty string with a non-numeric position")
	}
	if st != stOK {
		return notOK(st, "substr")
	}
	if pos < 0 || ln < 0 {
		return abstain("substr: negative position / length not documented")
	}
	if pos > int64(len(s)) {
		return abstain("substr: position beyond the end not defined")
	}
	end := int64(len(s))
	if ln < end-pos {
		end = pos + ln
	}
	byBytes := s[pos:end]
	if utf8.ValidString(s) && utf8.RuneCountInString(s) != len(s) {
		// characters vs bytes is not defined: accept both readings
		rs := []rune(s)
		alt := ""
		if pos <= int64(len(rs)) {
			e := int64(len(rs))
			if ln < e-pos {
				e = pos + ln
			}
			alt = string(rs[pos:e])
		}
		return oneOf(byBytes, alt)
	}
	if !utf8.ValidString(s) {
		return abstain("substr: invalid UTF-8")
	}
	return exact(byBytes)
}

// {percent val ["precision=1"] [[min=0] max=1]}
func refPercent(a []string) exp {
	val, st0 := floatArg(a[0])
	p, st1 := int64(1), stOK
	if len(a) >= 2 {
		p, st1 = intArg(a[1])
	}
	lo, hi := 0.0, 1.0
	st2, st3 := stOK, stOK
	switch len(a) {
	case 3:
		hi, st3 = floatArg(a[2])
	case 4:
		lo, st2 = floatArg(a[2])
		hi, st3 = floatArg(a[3])
	}
	if st := combine(st0, st1, st2, st3); st != stOK {
		return notOK(st, "percent")
	}
	if p < 0 || p > 15 {
		return abstain("percent: negative / huge precision not defined")
	}
	if hi == lo {
		return abstain("percent: max = min not defined")
	}
	rv, rl, rh := new(big.Rat).SetFloat64(val), new(big.Rat).SetFloat64(lo), new(big.Rat).SetFloat64(hi)
	num := new(big.Rat).Sub(rv, rl)
	num.Mul(num, big.NewRat(100, 1))
	den := new(big.Rat).Sub(rh, rl)
	want := new(big.Rat).Quo(num, den)
	wf, _ := want.Float64()
	if math.Abs(wf) > 1e15 {
		return abstain("percent: huge ratio")
	}
	// tolerance: half a unit of the last shown decimal + float arithmetic noise
	noise := 1e-9 * (math.Abs(val) + math.Abs(lo) + math.Abs(hi)) * 100 / math.Abs(hi-lo)
	tol := 0.5*math.Pow(10, -float64(p)) + noise + 1e-9*math.Abs(wf)
	return pred(fmt.Sprintf("%s%% shown with %d decimals", want.FloatString(int(p)), p), func(o string) bool {
		if !strings.HasSuffix(o, "%") {
			return false
		}
		body := o[:len(o)-1]
		if !reOutNum.MatchString(body) {
			return false
		}
		dec := 0
		if i := strings.IndexByte(body, '.'); i >= 0 {
			dec = len(body) - i - 1
		}
		if int64(dec) != p {
			return false
		}
		g, _ := strconv.ParseFloat(body, 64)
		return math.Abs(g-wf) <= tol
	})
}

var reUnit = regexp.MustCompile(`^(-?[0-9]+(?:\.([0-9]+))?)( ?)([A-Za-z]*)$`)

// {bytesize v [p]} / {bytesizesi v [p]} / {downscale v [p]}: value scaled by
// 1024 / 1000 to a unit, mantissa shown with p decimals.
func refUnits(h string, a []string) exp {
	n := classify(a[0])
	p, st1 := int64(0), stOK
	if len(a) == 2 {
		p, st1 = intArg(a[1])
	}
	var st0 int
	switch n.kind {
	case kInt:
		st0 = stOK
	case kDec:
		st0 = stMarker
		if n.intValued {
			st0 = stAbstain
		}
	case kNon:
		st0 = stMarker
	default:
		st0 = stAbstain
	}
	if st := combine(st0, st1); st != stOK {
		return notOK(st, h)
	}
	if p < 0 || p > 9 {
		return abstain("units: negative / huge precision not defined")
	}
	maxU := new(big.Int).SetUint64(math.MaxUint64)
	if h == "downscale" {
		if !n.inRange {
			return abstain("downscale: beyond the integer range")
		}
	} else if n.big.Cmp(maxU) > 0 {
		return abstain("bytesize: beyond 64 bits")
	}
	step := int64(1024)
	maxRank := 7
	if h == "bytesizesi" {
		step = 1000
	}
	if h == "downscale" {
		step, maxRank = 1000, 4
	}
	unitRank := func(u string) int {
		if h == "downscale" {
			switch u {
			case "":
				return 0
			case "k":
				return 1
			case "M":
				return 2
			case "B":
				return 3
			case "T":
				return 4
			}
			return -1
		}
		u = strings.ToUpper(u) // docs write "1KB" for both families; letter case is not defined
		if u == "B" {
			return 0
		}
		if len(u) == 2 && u[1] == 'B' {
			if i := strings.IndexByte("KMGTPEZ", u[0]); i >= 0 {
				return i + 1
			}
		}
		return -1
	}
	nf, _ := new(big.Float).SetInt(n.big).Float64()
	e := pred(fmt.Sprintf("%s scaled by %d to a unit, mantissa in [1,%d] with %d decimals", a[0], step, step, p), func(o string) bool {
		m := reUnit.FindStringSubmatch(o)
		if m == nil {
			return false
		}
		r := unitRank(m[4])
		if r < 0 || r > maxRank {
			return false
		}
		mant, err := strconv.ParseFloat(m[1], 64)
		if err != nil {
			return false
		}
		dec := len(m[2])
		scale := math.Pow(float64(step), float64(r))
		if r == 0 {
			// below one step: the number itself
			if math.Abs(nf) >= float64(step) {
				return false
			}
			return m[1] == n.big.String() || (int64(dec) == p && m[2] == strings.Repeat("0", dec) && m[1] == n.big.String()+"."+m[2])
		}
		if int64(dec) != p {
			return false
		}
		if math.Abs(mant) < 1 {
			return false // unit too large
		}
		if r < maxRank && math.Abs(mant) > float64(step) {
			return false // unit too small
		}
		tol := 0.5*math.Pow(10, -float64(dec))*scale + 1e-12*math.Abs(nf)
		return math.Abs(mant*scale-nf) <= tol
	})
	if h != "downscale" && strings.HasPrefix(a[0], "-") {
		return orMarker(e) // a negative byte size: rejecting it is fine
	}
	return e
}

// {csv a b c}: "Generate a CSV row given a set of values": the row parses back to the values.
func refCsv(a []string) exp {
	if len(a) == 1 && a[0] == "" {
		return oneOf("", `""`)
	}
	want := make([]string, len(a))
	for i, s := range a {
		want[i] = strings.ReplaceAll(s, "\r\n", "\n") // encoding/csv normalises CRLF inside quoted fields
	}
	return pred(fmt.Sprintf("one CSV record that parses back to %q", a), func(o string) bool {
		r := csv.NewReader(strings.NewReader(o))
		r.FieldsPerRecord = -1
		recs, err := r.ReadAll()
		if err != nil || len(recs) != 1 || len(recs[0]) != len(want) {
			return false
		}
		for i := range want {
			if recs[0][i] != want[i] {
				return false
			}
		}
		return true
	})
}

// {lookup key "kv-pairs" ["commentPrefix"]}, {haskey ...}
func refLookup(h string, a []string) exp {
	key, table := a[0], a[1]
	prefix := ""
	if len(a) == 3 {
		prefix = a[2]
	}
	if strings.ContainsAny(table, "\r\v\f") {
		return abstain("lookup: line terminators other than \\n")
	}
	vals := map[string]string{}
	count := map[string]int{}
	unclear := map[string]bool{}
	for _, line := range strings.Split(table, "\n") {
		if prefix != "" && strings.HasPrefix(line, prefix) {
			continue
		}
		if prefix != "" && strings.HasPrefix(strings.TrimLeft(line, " \t"), prefix) {
			// indented comment: not defined
			for _, f := range strings.Fields(line) {
				unclear[f] = true
			}
			continue
		}
		f := strings.Fields(line)
		switch {
		case len(f) == 2:
			vals[f[0]] = f[1]
			count[f[0]]++
		case len(f) == 1:
			unclear[f[0]] = true // key without value: not defined
		case len(f) > 2:
			// "too many values are also ignored"
		}
	}
	if unclear[key] || count[key] > 1 {
		return abstain("lookup: key defined ambiguously")
	}
	v, has := vals[key]
	if h == "haskey" {
		return wantTruth(has)
	}
	if !has {
		return abstain("lookup: missing key result not defined")
	}
	return exact(v)
}

var reCleanPath = regexp.MustCompile(`^/?[A-Za-z0-9_-][A-Za-z0-9._-]*(/[A-Za-z0-9_-][A-Za-z0-9._-]*)*$`)

func refPath(h, p string) exp {
	if !reCleanPath.MatchString(p) || strings.HasSuffix(p, ".") || strings.Contains(p, "./") {
		return abstain("path: only plain relative/absolute paths are defined by the examples")
	}
	i := strings.LastIndexByte(p, '/')
	base := p[i+1:]
	switch h {
	case "basename":
		return exact(base)
	case "dirname":
		if i <= 0 {
			return abstain("dirname: no directory part / root")
		}
		return exact(p[:i])
	}
	if j := strings.LastIndexByte(base, '.'); j >= 0 {
		return exact(base[j:])
	}
	return exact("")
}
