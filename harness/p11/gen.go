package p11

// Generators: argument tuples per helper. All randomness comes from the
// *run.Rand handed in (derived from VERIF_SEED, the spec name and the case
// index), nothing depends on map order or on the shard.

import (
	"math"
	"math/big"
	"strconv"
	"strings"

	"verifharness/internal/run"
)

type spec struct {
	name   string // unique, part of the PRNG stream key
	helper string
	weight int
	gen    func(r *run.Rand) []string
}

// ---------------------------------------------------------------- value pools

var boundaryInts = func() []int64 {
	v := []int64{0, 1, 2, 3, 7, 9, 10, 11, 49, 50, 51, 99, 100, 101, 127, 128, 255, 256, 999, 1000, 1001, 1023, 1024, 1025,
		32767, 32768, 65535, 65536, math.MaxInt32 - 1, math.MaxInt32, math.MaxInt32 + 1, math.MaxUint32, math.MaxUint32 + 1,
		1<<53 - 1, 1 << 53, 1<<53 + 1, 1<<62 - 1, 1 << 62, 1<<62 + 1, math.MaxInt64 - 1, math.MaxInt64}
	p := int64(1)
	for k := 1; k <= 18; k++ {
		p *= 10
		v = append(v, p-1, p, p+1)
	}
	q := int64(1)
	for k := 1; k <= 6; k++ {
		q *= 1024
		v = append(v, q-1, q, q+1)
	}
	n := len(v)
	for i := 0; i < n; i++ {
		v = append(v, -v[i])
	}
	v = append(v, math.MinInt64, math.MinInt64+1)
	return v
}()

func digitsInt(r *run.Rand, d int) int64 {
	// a random integer with exactly d decimal digits (d in 1..19, capped to int64)
	var sb strings.Builder
	sb.WriteByte(byte('1' + r.Intn(9)))
	for i := 1; i < d; i++ {
		sb.WriteByte(byte('0' + r.Intn(10)))
	}
	b, _ := new(big.Int).SetString(sb.String(), 10)
	if !b.IsInt64() {
		return math.MaxInt64 - int64(r.Intn(1000))
	}
	return b.Int64()
}

func genInt(r *run.Rand) int64 {
	switch r.Intn(10) {
	case 0, 1, 2:
		return boundaryInts[r.Intn(len(boundaryInts))]
	case 3, 4:
		return int64(r.Range(-20, 20))
	case 5:
		return int64(r.Range(-1200, 1200))
	default:
		v := digitsInt(r, r.Range(1, 19))
		if r.Bool() {
			v = -v
		}
		return v
	}
}

func itoa(v int64) string { return strconv.FormatInt(v, 10) }

func genSmall(r *run.Rand) int64 {
	switch r.Intn(4) {
	case 0:
		return int64(r.Range(-12, 12))
	case 1:
		return int64(r.Range(-1000, 1000))
	case 2:
		return int64(r.Range(-2000000000, 2000000000))
	}
	return int64(r.Range(-100000, 100000))
}

var nonNums = []string{"", "abc", "z", "12z", "z12", "1z2", "-", "--", "#5", "5%", "$1", "(1)", "1/2", "1:2", "one", "NULL",
	"true", "5s", "é", "1 k", "?", "12;", "<1>", "ten", "1.5m", " ", "-z", "0k", "1.5", "-2.25", "0.75", "12.5"}

func genNonNum(r *run.Rand) string { return nonNums[r.Intn(len(nonNums))] }

// notations the documentation does not define (never judged, only counted)
var greyNums = []string{"+5", "+010", " 5", "5 ", "1e3", "0x10", "0x1f", "0b101", "0o17", "1_000", "inf", "NaN", ".5", "5.", "1e-2", "99999999999999999999999", "007.5", "1.0e1"}

// zero-padded decimal integers: they denote their decimal value (never octal, never an error)
var paddedInts = []string{"00", "01", "02", "03", "04", "05", "06", "07", "08", "09", "010", "011", "012", "007", "0100", "-010",
	"0000", "-09", "-08", "-007", "000123", "0777", "-0777", "00000000000000000019", "0644", "08080", "-00", "0009", "01000", "0012345678"}

// pad writes an integer with 1..4 leading zeros
func pad(r *run.Rand, v int64) string {
	s := itoa(v)
	z := strings.Repeat("0", r.Range(1, 4))
	if strings.HasPrefix(s, "-") {
		return "-" + z + s[1:]
	}
	return z + s
}

// canonical decimal: optional '-', integer part without leading zeros, optional fraction
func genDec(r *run.Rand) string {
	switch r.Intn(12) {
	case 0:
		return []string{"0.5", "1.5", "2.5", "-0.5", "-1.5", "0.1", "0.2", "0.3", "0.25", "0.125", "-0.0", "0.0", "1.005", "2.675",
			"999.99999", "999.99995", "999.99994", "-999.99996", "999.9999", "1000.00005", "0.00005", "0.00004", "123.765", "1234567.891"}[r.Intn(24)]
	case 1, 2:
		return itoa(genSmall(r))
	case 3:
		return itoa(genInt(r))
	}
	ip := ""
	switch r.Intn(5) {
	case 0:
		ip = "0"
	case 1:
		ip = itoa(int64(r.Range(0, 1200)))
	case 2:
		ip = itoa(boundaryInts[r.Intn(len(boundaryInts))])
		ip = strings.TrimPrefix(ip, "-")
	default:
		ip = itoa(digitsInt(r, r.Range(1, 16)))
	}
	nd := r.Range(1, 6)
	if r.Intn(4) == 0 {
		nd = r.Range(1, 17)
	}
	var sb strings.Builder
	if r.Intn(3) == 0 {
		sb.WriteByte('-')
	}
	sb.WriteString(ip)
	sb.WriteByte('.')
	switch r.Intn(6) {
	case 0:
		sb.WriteString(strings.Repeat("9", nd))
	case 1:
		sb.WriteString(strings.Repeat("0", nd-1) + "1")
	case 2:
		sb.WriteString(strings.Repeat("0", nd))
	default:
		for i := 0; i < nd; i++ {
			sb.WriteByte(byte('0' + r.Intn(10)))
		}
	}
	return sb.String()
}

// num wraps a numeric generator: now and then a non-number (-> error marker) or an undefined notation
func numOr(r *run.Rand, s string) string {
	switch r.Intn(40) {
	case 0, 1, 2:
		return genNonNum(r)
	case 3:
		return greyNums[r.Intn(len(greyNums))]
	case 4, 5:
		return paddedInts[r.Intn(len(paddedInts))]
	case 6:
		if reInt.MatchString(s) && len(s) < 30 {
			if s[0] == '-' {
				return "-" + strings.Repeat("0", r.Range(1, 4)) + s[1:]
			}
			return strings.Repeat("0", r.Range(1, 4)) + s
		}
	}
	return s
}

var words = []string{"a", "b", "x", "ab", "cd", "ef", "foo", "bar", "Hello", "WORLD", "mIxEd", "GET", "/index.html", "404", "0", "1",
	"key", "val", "a-b", "a_b", "a.b", "x=1", "naïve", "жук", "λ", "日本", "tail."}

func genWord(r *run.Rand) string { return words[r.Intn(len(words))] }

const (
	alphaSafe  = "abcxyzABCXYZ0189_-.,:;=+/@#%&*()[]<>!?'`~^|$ "
	alphaWS    = " \t\n"
	alphaNasty = "\\{}\"\r\x00"
)

// genStr: an arbitrary string; most are expressible as a constant, some only as a match group
func genStr(r *run.Rand) string {
	switch r.Intn(12) {
	case 0:
		return ""
	case 1, 2, 3:
		return genWord(r)
	case 4:
		return genWord(r) + " " + genWord(r)
	case 5:
		return string(r.Bytes(r.Range(1, 3), []byte(alphaWS)))
	case 6: // raw bytes, invalid UTF-8 included
		return string(r.Bytes(r.Range(1, 6), nil))
	case 7:
		n := r.Range(1, 8)
		var sb strings.Builder
		for i := 0; i < n; i++ {
			if r.Intn(4) == 0 {
				sb.WriteByte(alphaNasty[r.Intn(len(alphaNasty))])
			} else {
				sb.WriteByte(alphaSafe[r.Intn(len(alphaSafe))])
			}
		}
		return sb.String()
	case 8:
		return itoa(genSmall(r))
	}
	return string(r.Bytes(r.Range(1, 10), []byte(alphaSafe)))
}

func genTruthArg(r *run.Rand) string {
	switch r.Intn(8) {
	case 0, 1:
		return ""
	case 2:
		return string(r.Bytes(r.Range(1, 3), []byte(alphaWS+"\r\v\f"))) // every ASCII white-space character
	case 3:
		return []string{"0", "false", " x ", "\tq", "\u00a0", "\x00", "\v", "\f", "\r", " \f", "\v\t"}[r.Intn(11)]
	}
	return genWord(r)
}

func nArgs(r *run.Rand, lo, hi int, g func(*run.Rand) string) []string {
	n := r.Range(lo, hi)
	a := make([]string, n)
	for i := range a {
		a[i] = g(r)
	}
	return a
}

// ---------------------------------------------------------------- per-helper generators

func bucketArgs(r *run.Rand) []string {
	sizes := []int64{1, 2, 3, 5, 7, 10, 16, 50, 60, 100, 1000, 1024, 10000, 86400, 1000000, 1 << 31, 1000000007, 1 << 62, math.MaxInt64}
	var s int64
	switch r.Intn(8) {
	case 0:
		s = int64(r.Range(1, 200))
	case 1:
		s = digitsInt(r, r.Range(1, 18))
	case 2:
		// invalid sizes: <VALUE> / <BAD-TYPE>
		return []string{itoa(genSmall(r)), []string{"0", "-1", "-50", "abc", "", "z5"}[r.Intn(6)]}
	default:
		s = sizes[r.Intn(len(sizes))]
	}
	bs := big.NewInt(s)
	var m int64
	switch r.Intn(5) {
	case 0, 1, 2:
		m = int64(r.Range(-6, 6))
	case 3:
		m = int64(r.Range(-100000, 100000))
	default:
		m = genInt(r)
	}
	ds := []int64{-2, -1, 0, 0, 0, 1, 2, s / 2, s - 1, -(s - 1), int64(r.Intn(1 << 30))}
	d := ds[r.Intn(len(ds))]
	v := new(big.Int).Mul(big.NewInt(m), bs)
	v.Add(v, big.NewInt(d))
	if !v.IsInt64() {
		v = big.NewInt(genInt(r))
	}
	if r.Intn(3) == 0 {
		v = big.NewInt(genInt(r))
	}
	return []string{numOr(r, v.String()), itoa(s)}
}

func expbucketArgs(r *run.Rand) []string {
	var v int64
	switch r.Intn(8) {
	case 0, 1, 2:
		p := int64(1)
		for k := r.Intn(19); k > 0; k-- {
			p *= 10
		}
		v = p + int64(r.Range(-2, 2))
	case 3:
		p := int64(1)
		for k := r.Intn(18); k > 0; k-- {
			p *= 10
		}
		v = p * int64(r.Range(1, 9))
	case 4:
		v = int64(r.Range(-5, 120))
	case 5:
		v = genInt(r)
	default:
		v = digitsInt(r, r.Range(1, 19))
	}
	return []string{numOr(r, itoa(v))}
}

func intFoldArgs(h string) func(r *run.Rand) []string {
	return func(r *run.Rand) []string {
		n := r.Range(2, 4)
		a := make([]string, n)
		wide := r.Intn(5) == 0 || h == "maxi" || h == "mini"
		positive := r.Intn(3) > 0
		for i := range a {
			var v int64
			if wide && r.Bool() {
				v = genInt(r)
			} else {
				v = genSmall(r)
			}
			if (h == "divi" || h == "modi") && i > 0 {
				switch r.Intn(4) {
				case 0:
					v = int64(r.Range(1, 12))
				case 1:
					v = int64(r.Range(-12, -1))
				}
				if v == 0 {
					v = 1 // a zero divisor is not defined (and panics: C08)
				}
			}
			if (h == "divi" || h == "modi") && positive && v < 0 {
				v = -(v + 1) + 1
				if v <= 0 {
					v = 1
				}
			}
			a[i] = numOr(r, itoa(v))
		}
		if (h == "divi" || h == "modi") && r.Intn(3) == 0 {
			// exact multiples, both signs
			d := int64(r.Range(1, 50))
			if r.Bool() {
				d = -d
			}
			a = []string{itoa(d * int64(r.Range(-1000, 1000))), itoa(d)}
		}
		return a
	}
}

func floatFoldArgs(r *run.Rand) []string {
	return nArgs(r, 2, 3, func(r *run.Rand) string { return numOr(r, genDec(r)) })
}

func powArgs(r *run.Rand) []string {
	b := genDec(r)
	if r.Intn(3) > 0 {
		b = []string{"2", "10", "0.5", "1.5", "3", "-2", "1", "0", "9", "2.5", "100"}[r.Intn(11)]
	}
	e := []string{"0", "1", "2", "3", "0.5", "-1", "-2", "10", "1.5", "0.25", "20"}[r.Intn(11)]
	return []string{numOr(r, b), numOr(r, e)}
}

func roundArgs(r *run.Rand) []string {
	a := []string{numOr(r, genDec(r))}
	if r.Intn(3) > 0 {
		p := itoa(int64(r.Range(0, 6)))
		if r.Intn(12) == 0 {
			p = []string{"x", "", "1.5", "12", "20"}[r.Intn(5)]
		}
		a = append(a, p)
	}
	return a
}

func posArgs(r *run.Rand) []string {
	s := genDec(r)
	switch r.Intn(6) {
	case 0:
		s = []string{"1", "10", "100", "1000", "2", "8", "1024", "0.001", "0.5", "2.718281828459045", "4", "9", "0", "-1", "1000000"}[r.Intn(15)]
	case 1:
		s = itoa(boundaryInts[r.Intn(len(boundaryInts))])
	}
	if r.Intn(3) > 0 {
		s = strings.TrimPrefix(s, "-")
	}
	return []string{numOr(r, s)}
}

func clampArgs(r *run.Rand) []string {
	lo, hi := genInt(r), genInt(r)
	if r.Intn(3) > 0 {
		lo, hi = genSmall(r), genSmall(r)
	}
	if lo > hi && r.Intn(10) > 0 {
		lo, hi = hi, lo
	}
	if r.Intn(10) == 0 {
		hi = lo
	}
	var v int64
	switch r.Intn(10) {
	case 0:
		v = lo
	case 1:
		v = hi
	case 2:
		v = sat(lo, -1)
	case 3:
		v = sat(lo, 1)
	case 4:
		v = sat(hi, -1)
	case 5:
		v = sat(hi, 1)
	case 6:
		v = genInt(r)
	default:
		v = lo/2 + hi/2 + int64(r.Range(-3, 3))
	}
	a := []string{numOr(r, itoa(v)), itoa(lo), itoa(hi)}
	if r.Intn(25) == 0 {
		a[1+r.Intn(2)] = genNonNum(r)
	}
	return a
}

func sat(v int64, d int64) int64 {
	if d > 0 && v > math.MaxInt64-d {
		return v
	}
	if d < 0 && v < math.MinInt64-d {
		return v
	}
	return v + d
}

func compareArgs(r *run.Rand) []string {
	x := genInt(r)
	var y int64
	switch r.Intn(8) {
	case 0:
		y = x
	case 1:
		y = sat(x, 1)
	case 2:
		y = sat(x, -1)
	case 3:
		y = -x
		if x == math.MinInt64 {
			y = math.MaxInt64
		}
	case 4:
		y = sat(x, int64(r.Range(-600, 600)))
	default:
		y = genInt(r)
	}
	a := []string{itoa(x), itoa(y)}
	if r.Intn(8) == 0 {
		a = []string{genDec(r), genDec(r)}
	}
	a[0], a[1] = numOr(r, a[0]), numOr(r, a[1])
	return a
}

func selectArgs(r *run.Rand) []string {
	n := r.Range(1, 5)
	var sb strings.Builder
	for i := 0; i < n; i++ {
		if i > 0 {
			sb.Write(r.Bytes(r.Range(1, 2), []byte(alphaWS)))
		}
		w := genWord(r)
		if r.Intn(4) == 0 {
			w = string(r.Bytes(r.Range(1, 6), []byte("abcXYZ019_-.,:=/'")))
		}
		sb.WriteString(w)
	}
	if r.Intn(6) == 0 {
		sb.Write(r.Bytes(1, []byte(alphaWS)))
	}
	s := sb.String()
	if r.Intn(15) == 0 {
		s = " " + s // leading white space: not judged
	}
	idx := itoa(int64(r.Intn(n)))
	switch r.Intn(12) {
	case 0:
		idx = itoa(int64(n + r.Intn(2)))
	case 1:
		idx = itoa(int64(-1 - r.Intn(2)))
	case 2:
		idx = genNonNum(r)
	}
	return []string{s, idx}
}

func substrArgs(r *run.Rand) []string {
	var s string
	switch r.Intn(8) {
	case 0:
		s = ""
	case 1:
		s = []string{"naïve", "жук", "日本語", "aλb"}[r.Intn(4)]
	case 2:
		s = genStr(r)
	default:
		s = string(r.Bytes(r.Range(1, 12), []byte("abcdefghijklmnopqrstuvwxyz0123456789 ")))
	}
	n := int64(len(s))
	pos := int64(r.Range(0, int(n)))
	ln := int64(r.Range(0, int(n)+3))
	switch r.Intn(14) {
	case 0:
		pos = n + int64(r.Range(1, 3))
	case 1:
		pos = int64(r.Range(-int(n)-2, -1))
	case 2:
		ln = -int64(r.Range(1, 3))
	case 3:
		ln = []int64{math.MaxInt64, math.MaxInt64 - 1, math.MaxInt64 - pos, math.MaxInt64 - pos + 1, 1 << 62, 1 << 31, 1 << 32, math.MaxInt64 / 2}[r.Intn(8)]
		if ln < 0 {
			ln = math.MaxInt64
		}
	case 4:
		pos, ln = 0, n
	}
	return []string{s, numOr(r, itoa(pos)), numOr(r, itoa(ln))}
}

func caseArgs(r *run.Rand) []string {
	n := r.Range(0, 10)
	al := []rune("abcxyzABCXYZ019 _-.,é" + safeLetters)
	var sb strings.Builder
	for i := 0; i < n; i++ {
		if r.Intn(5) == 0 {
			sb.WriteRune(al[r.Intn(len(al))])
		} else {
			sb.WriteRune(al[r.Intn(20)])
		}
	}
	if r.Intn(20) == 0 {
		return []string{genStr(r)}
	}
	return []string{sb.String()}
}

func hiArgs(r *run.Rand) []string {
	var v int64
	switch r.Intn(4) {
	case 0:
		v = boundaryInts[r.Intn(len(boundaryInts))]
	case 1:
		v = int64(r.Range(-1100, 1100))
	default:
		v = digitsInt(r, r.Range(1, 19)) // every digit count, both signs
		if r.Bool() {
			v = -v
		}
	}
	return []string{numOr(r, itoa(v))}
}

func hfArgs(r *run.Rand) []string {
	s := genDec(r)
	switch r.Intn(6) {
	case 0: // around the thousands boundary after rounding to 4 decimals
		base := []string{"999", "-999", "999999", "-999999", "99", "9999"}[r.Intn(6)]
		s = base + "." + []string{"99994", "99995", "99996", "99999", "9999", "99989", "999949999", "99995000001"}[r.Intn(8)]
	case 1: // long integer parts (beyond int64 as well)
		var sb strings.Builder
		if r.Bool() {
			sb.WriteByte('-')
		}
		sb.WriteByte(byte('1' + r.Intn(9)))
		for i := r.Range(0, 24); i > 0; i-- {
			sb.WriteByte(byte('0' + r.Intn(10)))
		}
		if r.Bool() {
			sb.WriteString("." + itoa(int64(r.Intn(100000))))
		}
		s = sb.String()
	}
	return []string{numOr(r, s)}
}

func percentArgs(r *run.Rand) []string {
	n := r.Range(1, 4)
	a := []string{numOr(r, genDec(r))}
	if r.Intn(2) == 0 {
		a[0] = numOr(r, []string{"0.1234", "0.5", "1", "0", "0.999", "25", "100", "-0.25", "0.12345", "50", "75.5", "1.5"}[r.Intn(12)])
	}
	if n >= 2 {
		p := itoa(int64(r.Range(0, 6)))
		if r.Intn(15) == 0 {
			p = []string{"x", "", "1.5", "-1"}[r.Intn(4)]
		}
		a = append(a, p)
	}
	rng := func() string {
		if r.Intn(3) == 0 {
			return numOr(r, genDec(r))
		}
		return numOr(r, []string{"0", "1", "100", "50", "150", "25", "75", "0.5", "-100", "1000", "10", "200", "255"}[r.Intn(13)])
	}
	if n >= 3 {
		a = append(a, rng())
	}
	if n == 4 {
		a = append(a, rng())
	}
	return a
}

func unitArgs(h string) func(r *run.Rand) []string {
	return func(r *run.Rand) []string {
		step := int64(1024)
		if h != "bytesize" {
			step = 1000
		}
		var s string
		switch r.Intn(8) {
		case 0, 1, 2:
			// around every unit threshold
			p := big.NewInt(1)
			for k := r.Intn(8); k > 0; k-- {
				p.Mul(p, big.NewInt(step))
			}
			p.Mul(p, big.NewInt(int64([]int{1, 1, 1, 2, 5, 10, 100, 500, 999, 1023}[r.Intn(10)])))
			p.Add(p, big.NewInt(int64(r.Range(-2, 2))))
			s = p.String()
		case 3:
			s = itoa(int64(r.Range(0, 2100)))
		case 4:
			s = itoa(genInt(r))
		case 5:
			// the top of the unsigned range
			u := new(big.Int).SetUint64(math.MaxUint64 - uint64(r.Intn(1<<20)))
			if r.Bool() {
				u = new(big.Int).SetUint64(1<<63 + uint64(r.Intn(1<<30)))
			}
			if r.Intn(4) == 0 {
				u.Rsh(u, uint(r.Intn(3)))
			}
			s = u.String()
		default:
			var sb strings.Builder
			sb.WriteByte(byte('1' + r.Intn(9)))
			for i := r.Range(0, 18); i > 0; i-- {
				sb.WriteByte(byte('0' + r.Intn(10)))
			}
			s = sb.String()
		}
		if h == "downscale" && r.Intn(3) == 0 && !strings.HasPrefix(s, "-") && s != "0" {
			s = "-" + s
		}
		a := []string{numOr(r, s)}
		if r.Bool() {
			p := itoa(int64(r.Range(0, 4)))
			if r.Intn(20) == 0 {
				p = []string{"x", "", "1.5"}[r.Intn(3)]
			}
			a = append(a, p)
		}
		return a
	}
}

func csvArgs(r *run.Rand) []string {
	return nArgs(r, 1, 5, func(r *run.Rand) string {
		switch r.Intn(6) {
		case 0:
			return ""
		case 1:
			return genWord(r)
		case 2:
			return genStr(r)
		}
		return string(r.Bytes(r.Range(1, 7), []byte("ab1 ,\"\n\r';\t\\,\"")))
	})
}

func likeArgs(h string) func(r *run.Rand) []string {
	return func(r *run.Rand) []string {
		v := genStr(r)
		if r.Bool() {
			v = genWord(r) + genWord(r)
		}
		var sub string
		switch r.Intn(6) {
		case 0:
			sub = genStr(r)
		case 1:
			sub = ""
		case 2:
			sub = v
		case 3:
			sub = v + "x"
		default:
			if len(v) > 0 {
				i := r.Intn(len(v) + 1)
				j := i + r.Intn(len(v)-i+1)
				switch h {
				case "prefix":
					if r.Intn(3) > 0 {
						i = 0
					}
				case "suffix":
					if r.Intn(3) > 0 {
						j = len(v)
					}
				}
				sub = v[i:j]
			}
		}
		return []string{v, sub}
	}
}

func eqArgs(r *run.Rand) []string {
	a := genStr(r)
	switch r.Intn(5) {
	case 0, 1:
		return []string{a, a}
	case 2:
		return []string{a, a + []string{"x", " ", "0", ".0"}[r.Intn(4)]}
	case 3:
		if r.Bool() {
			return []string{a, strings.ToUpper(a)}
		}
		return []string{itoa(genSmall(r)), genDec(r)}
	}
	return []string{a, genStr(r)}
}

var formats = []string{"%s", "%s-%s", "%5s|", "%-5s|", "%q", "%v", "%x", "%d", "100%%", "%s %s %s", "[%10s]", "%.2s", "%05s", "plain",
	"%s=%v", "%[2]s %[1]s", "%8.3s|", "%X", "%t", "%s%s"}

func formatArgs(r *run.Rand) []string {
	a := []string{formats[r.Intn(len(formats))]}
	for i := r.Intn(4); i > 0; i-- {
		a = append(a, genStr(r))
	}
	return a
}

func lookupArgs(r *run.Rand) []string {
	n := r.Range(1, 6)
	perm := r.Perm(len(words))
	keys := make([]string, n)
	for i := range keys {
		keys[i] = strings.ReplaceAll(words[perm[i]], "#", "") + itoa(int64(i))
	}
	prefix := ""
	if r.Bool() {
		prefix = []string{"#", "//", ";"}[r.Intn(3)]
	}
	cp := prefix
	if cp == "" {
		cp = "#"
	}
	sep := func() string { return string(r.Bytes(r.Range(1, 3), []byte(" \t"))) }
	var lines []string
	commented, ignored := "", ""
	for i, k := range keys {
		switch r.Intn(7) {
		case 0:
			lines = append(lines, "")
		case 1:
			commented = "ck" + itoa(int64(i))
			lines = append(lines, cp+commented+sep()+"hidden")
			lines = append(lines, cp+" a comment line with words")
		case 2:
			ignored = "many" + itoa(int64(i))
			lines = append(lines, ignored+sep()+"v1"+sep()+"v2")
		}
		l := k + sep() + "v_" + k
		if r.Intn(6) == 0 {
			l += sep() // trailing blanks
		}
		lines = append(lines, l)
	}
	table := strings.Join(lines, "\n")
	if r.Intn(3) == 0 {
		table += "\n"
	}
	var key string
	switch r.Intn(10) {
	case 0:
		key = "missing"
	case 1:
		key = "v_" + keys[0] // a value is not a key
	case 2:
		key = commented
		if key == "" {
			key = cp + "x"
		} else if r.Bool() {
			key = cp + commented // the whole first token of the comment line
		}
	case 3:
		key = ignored
	case 4:
		key = strings.ToUpper(keys[0])
	default:
		key = keys[r.Intn(n)]
	}
	a := []string{key, table}
	if prefix != "" {
		a = append(a, prefix)
	}
	return a
}

func pathArgs(r *run.Rand) []string {
	segs := []string{"a", "b", "c", "usr", "local", "var", "log", "nginx", "access.log", "c.jpg", "archive.tar.gz", "README", "x_y", "v1.2", "file-1.txt", "d.e.f"}
	n := r.Range(1, 4)
	var p []string
	for i := 0; i < n; i++ {
		p = append(p, segs[r.Intn(len(segs))])
	}
	s := strings.Join(p, "/")
	if r.Intn(3) == 0 {
		s = "/" + s
	}
	if r.Intn(15) == 0 {
		s = []string{"", "/", ".", "a/", "a//b", ".hidden", "../x", "a/./b", "dir.d/"}[r.Intn(9)] // not judged
	}
	return []string{s}
}

func isnumArgs(r *run.Rand) []string {
	switch r.Intn(5) {
	case 0:
		return []string{itoa(genInt(r))}
	case 1:
		return []string{genDec(r)}
	case 2:
		return []string{genNonNum(r)}
	case 3:
		if r.Bool() {
			return []string{paddedInts[r.Intn(len(paddedInts))]}
		}
		return []string{greyNums[r.Intn(len(greyNums))]}
	}
	return []string{genStr(r)}
}

func switchArgs(r *run.Rand) []string {
	n := r.Range(2, 7)
	a := make([]string, n)
	for i := range a {
		if i%2 == 0 && i+1 < n {
			a[i] = genTruthArg(r)
			if r.Intn(3) > 0 {
				a[i] = "" // let later pairs and the else branch be reached
			}
		} else {
			a[i] = genStr(r)
		}
	}
	return a
}

// wrong argument counts for helpers whose syntax line fixes the count
func arityArgs(h string) func(r *run.Rand) []string {
	return func(r *run.Rand) []string {
		ar := arity[h]
		n := ar[0] - 1
		if ar[1] >= 0 && (n < 1 || r.Bool()) {
			n = ar[1] + 1 + r.Intn(2)
		}
		if n < 1 {
			n = 1
		}
		a := make([]string, n)
		for i := range a {
			a[i] = itoa(int64(r.Range(1, 9)))
		}
		return a
	}
}

func specs() []spec {
	one := func(g func(*run.Rand) string) func(*run.Rand) []string {
		return func(r *run.Rand) []string { return []string{g(r)} }
	}
	s := []spec{
		{"coalesce", "coalesce", 1, func(r *run.Rand) []string {
			return nArgs(r, 1, 4, func(r *run.Rand) string {
				if r.Intn(3) > 0 {
					return ""
				}
				return genStr(r)
			})
		}},
		{"select", "select", 2, selectArgs},
		{"bucket", "bucket", 4, bucketArgs},
		{"bucketrange", "bucketrange", 3, bucketArgs},
		{"expbucket", "expbucket", 2, expbucketArgs},
	}
	for _, h := range []string{"sumi", "subi", "multi", "divi", "modi", "maxi", "mini"} {
		s = append(s, spec{h, h, 1, intFoldArgs(h)})
	}
	for _, h := range []string{"sumf", "subf", "multf", "divf"} {
		s = append(s, spec{h, h, 1, floatFoldArgs})
	}
	s = append(s,
		spec{"floor", "floor", 1, one(func(r *run.Rand) string { return numOr(r, genDec(r)) })},
		spec{"ceil", "ceil", 1, one(func(r *run.Rand) string { return numOr(r, genDec(r)) })},
		spec{"round", "round", 2, roundArgs},
		spec{"log10", "log10", 1, posArgs}, spec{"log2", "log2", 1, posArgs}, spec{"ln", "ln", 1, posArgs},
		spec{"sqrt", "sqrt", 1, posArgs}, spec{"pow", "pow", 1, powArgs},
		spec{"clamp", "clamp", 3, clampArgs},
		spec{"len", "len", 1, one(genStr)},
		spec{"if", "if", 1, func(r *run.Rand) []string {
			a := []string{genTruthArg(r), genStr(r)}
			if r.Bool() {
				a = append(a, genStr(r))
			}
			return a
		}},
		spec{"unless", "unless", 1, func(r *run.Rand) []string { return []string{genTruthArg(r), genStr(r)} }},
		spec{"switch", "switch", 1, switchArgs},
		spec{"eq", "eq", 1, eqArgs}, spec{"neq", "neq", 1, eqArgs},
		spec{"not", "not", 1, one(genTruthArg)},
	)
	for _, h := range []string{"lt", "gt", "lte", "gte"} {
		s = append(s, spec{h, h, 2, compareArgs})
	}
	s = append(s,
		spec{"and", "and", 1, func(r *run.Rand) []string {
			return nArgs(r, 1, 4, func(r *run.Rand) string {
				switch r.Intn(12) {
				case 0, 1, 2:
					return ""
				case 3:
					return genTruthArg(r)
				}
				return genStr(r)
			})
		}},
		spec{"or", "or", 1, func(r *run.Rand) []string {
			return nArgs(r, 1, 4, func(r *run.Rand) string {
				if r.Intn(3) > 0 {
					return ""
				}
				if r.Intn(6) == 0 {
					return genTruthArg(r)
				}
				return genStr(r)
			})
		}},
		spec{"like", "like", 1, likeArgs("like")}, spec{"prefix", "prefix", 1, likeArgs("prefix")}, spec{"suffix", "suffix", 1, likeArgs("suffix")},
		spec{"isint", "isint", 1, isnumArgs}, spec{"isnum", "isnum", 1, isnumArgs},
		spec{"format", "format", 1, formatArgs},
		spec{"substr", "substr", 3, substrArgs},
		spec{"upper", "upper", 1, caseArgs}, spec{"lower", "lower", 1, caseArgs},
		spec{"hi", "hi", 3, hiArgs}, spec{"hf", "hf", 3, hfArgs},
		spec{"percent", "percent", 2, percentArgs},
		spec{"bytesize", "bytesize", 2, unitArgs("bytesize")}, spec{"bytesizesi", "bytesizesi", 2, unitArgs("bytesizesi")},
		spec{"downscale", "downscale", 2, unitArgs("downscale")},
		spec{"tab", "tab", 1, func(r *run.Rand) []string { return nArgs(r, 1, 4, genStr) }},
		spec{"csv", "csv", 3, csvArgs},
		spec{"lookup", "lookup", 1, lookupArgs}, spec{"haskey", "haskey", 1, lookupArgs},
		spec{"basename", "basename", 1, pathArgs}, spec{"dirname", "dirname", 1, pathArgs}, spec{"extname", "extname", 1, pathArgs},
	)
	// wrong argument counts (documented <ARGN>): a thin slice, one spec for all strict helpers
	var strict []string
	for _, sp := range s {
		if strictArity[sp.helper] {
			strict = append(strict, sp.helper)
		}
	}
	for _, h := range strict {
		s = append(s, spec{"arity/" + h, h, 0, arityArgs(h)})
	}
	return s
}
