package p14

import (
	"fmt"
	"math"
	"sort"
	"time"

	"rare/pkg/multiterm/termscaler"

	"verifharness/internal/run"
)

// runScale: for one scaler and one (min,max), over an ascending list of
// values: Scale is a number in [0,1] and monotone in the value; the bucket and
// length derived from it stay in their documented ranges and are monotone too.
func (e *env) runScale() (classes []string) {
	cs, c := e.cs, e.c
	if cs.Scale == "log10" && cs.Min == math.MaxInt64 && cs.Max == math.MaxInt64 {
		classes = append(classes, fpScaleMaxInt)
		if cs.Pin == "" && c.KnownActive(fpScaleMaxInt) {
			c.Count("skipped_known_class", 1)
			return nil
		}
	}
	s := scaler(cs.Scale)
	vals := append([]int64(nil), cs.Vals...)
	sort.Slice(vals, func(i, j int) bool { return vals[i] < vals[j] })
	buckets := []int{2, 4, 9, 10, 16}
	lens := []int{1, 50, 450}
	p, val, stack := run.Guard(func() {
		prev := math.Inf(-1)
		var prevV int64
		prevB := make([]int, len(buckets))
		prevL := make([]int, len(lens))
		for i, v := range vals {
			u := s.Scale(v, cs.Min, cs.Max)
			c.Count("scaler_triples", 1)
			if math.IsNaN(u) || u < 0 || u > 1 {
				e.fail("range", "%s.Scale(%d, %d, %d) = %v, outside [0,1]", cs.Scale, v, cs.Min, cs.Max, u)
				return
			}
			if i > 0 && u < prev {
				e.fail("monotone", "%s.Scale(%d, %d, %d) = %v but Scale(%d, …) = %v for the smaller value", cs.Scale, v, cs.Min, cs.Max, u, prevV, prev)
				return
			}
			for bi, n := range buckets {
				b := termscaler.Bucket(n, u)
				b2 := s.Bucket(n, v, cs.Min, cs.Max)
				if b < 0 || b > n-1 || b2 != b {
					e.fail("range", "Bucket(%d, %s.Scale(%d, %d, %d)=%v) = %d / Scaler.Bucket = %d, expected one value in [0,%d]", n, cs.Scale, v, cs.Min, cs.Max, u, b, b2, n-1)
					return
				}
				if i > 0 && b < prevB[bi] {
					e.fail("monotone", "Bucket(%d) of %s.Scale(%d, %d, %d) = %d, below %d for the smaller value %d", n, cs.Scale, v, cs.Min, cs.Max, b, prevB[bi], prevV)
					return
				}
				prevB[bi] = b
			}
			for li, n := range lens {
				l := termscaler.LengthVal(n, u)
				l2 := s.LengthVal(n, v, cs.Min, cs.Max)
				if l < 0 || l > n || l2 != l {
					e.fail("range", "LengthVal(%d, %s.Scale(%d, %d, %d)=%v) = %d / Scaler.LengthVal = %d, expected one value in [0,%d]", n, cs.Scale, v, cs.Min, cs.Max, u, l, l2, n)
					return
				}
				if i > 0 && l < prevL[li] {
					e.fail("monotone", "LengthVal(%d) of %s.Scale(%d, %d, %d) = %d, below %d for the smaller value %d", n, cs.Scale, v, cs.Min, cs.Max, l, prevL[li], prevV)
					return
				}
				prevL[li] = l
			}
			prev, prevV = u, v
		}
		// the legend keys of the heatmap: must return (no law is stated for the values)
		_ = s.ScaleKeys(6, cs.Min, cs.Max)
	})
	if p {
		e.fail("panic", "termscaler panicked for scaler %s min %d max %d: %v\n%s", cs.Scale, cs.Min, cs.Max, val, stack)
	}
	return classes
}

var interesting = []int64{math.MinInt64, math.MinInt64 + 1, -1 << 53, -1000000, -10, -2, -1, 0, 1, 2, 3, 7, 8, 9, 10, 11, 99, 100, 101, 1023, 1024, 1025,
	999999, 1000000, 1 << 31, 1 << 32, 1<<53 - 1, 1 << 53, 1<<53 + 1, 999999999999999999, 1000000000000000000, 1 << 62, math.MaxInt64 - 1, math.MaxInt64}

func pickI64(r *run.Rand) int64 {
	switch r.Intn(6) {
	case 0:
		return interesting[r.Intn(len(interesting))]
	case 1:
		return int64(r.Range(-20, 120))
	case 2:
		return r.I64()
	case 3:
		return r.I64() >> uint(r.Range(1, 63))
	case 4:
		v := int64(1) << uint(r.Range(0, 62))
		return v + int64(r.Range(-1, 1))
	}
	return pow10(r.Range(0, 18)) + int64(r.Range(-1, 1))
}

func addSat(v int64, d int64) int64 {
	if d > 0 && v > math.MaxInt64-d {
		return math.MaxInt64
	}
	if d < 0 && v < math.MinInt64-d {
		return math.MinInt64
	}
	return v + d
}

func genScale(r *run.Rand) *Case {
	cs := &Case{Kind: "scale", Scale: r.Pick(scales)}
	cs.Min, cs.Max = pickI64(r), pickI64(r)
	switch r.Intn(8) {
	case 0:
		cs.Max = cs.Min
	case 1: // min > max stays as drawn
	default:
		if cs.Min > cs.Max {
			cs.Min, cs.Max = cs.Max, cs.Min
		}
	}
	vs := []int64{addSat(cs.Min, -1), cs.Min, addSat(cs.Min, 1), addSat(cs.Max, -1), cs.Max, addSat(cs.Max, 1)}
	if cs.Max > cs.Min {
		span := uint64(cs.Max) - uint64(cs.Min)
		vs = append(vs, int64(uint64(cs.Min)+span/2))
		for k := 0; k < 6; k++ {
			vs = append(vs, int64(uint64(cs.Min)+r.U64()%span))
		}
	}
	for k := 0; k < 3; k++ {
		vs = append(vs, pickI64(r))
	}
	cs.Vals = vs
	return cs
}

func scalerLaws(c *run.Ctx) {
	// dense small box: every (min,max) in [-3,12]^2 with every value in [-4,13]
	idx := 0
	for _, sc := range scales {
		for mn := int64(-3); mn <= 12; mn++ {
			if c.Mine(idx) {
				c.Begin(map[string]any{"kind": "scale-dense", "scale": sc, "min": mn}, 4*time.Minute)
				for mx := int64(-3); mx <= 12; mx++ {
					cs := &Case{Kind: "scale", Scale: sc, Min: mn, Max: mx}
					for v := int64(-4); v <= 13; v++ {
						cs.Vals = append(cs.Vals, v)
					}
					runCase(c, cs)
					c.Evals(len(cs.Vals))
				}
				c.End()
			}
			idx++
		}
	}
	N := c.N(14000, 280000)
	for i := 0; i < N; i++ {
		if !c.Mine(i) {
			continue
		}
		cs := genScale(c.Rand("scale", i))
		c.Begin(cs, 4*time.Minute)
		if i < 2 {
			c.Sample(map[string]any{"kind": "scale", "config": describe(cs), "values": fmt.Sprint(cs.Vals)})
		}
		runCase(c, cs)
		c.Evals(len(cs.Vals) - 1)
		c.End()
		if c.Violations() >= 6 {
			return
		}
	}
}
