package p14

import (
	"bytes"
	"fmt"
	"math"
	"os"
	"os/exec"
	"path/filepath"
	"regexp"
	"strings"
	"syscall"
	"time"

	"verifharness/internal/run"
)

// runCLI: `rare <aggregator> --snapshot …` on a small generated input must
// terminate and must not die with a Go panic. This confirms that a crash found
// on the renderer API is a crash of the program (and the other way round:
// what the commands can reach is exercised through the real entry point).
func (e *env) runCLI() (classes []string) {
	cs, c := e.cs, e.c
	if c.RareBin == "" {
		c.Note("cli cases skipped: no rare binary")
		return nil
	}
	classes = cs.Class
	if cs.Pin != "" {
		classes = []string{cs.Pin}
	}
	dir := filepath.Join(c.WorkDir, "cli")
	os.MkdirAll(dir, 0o755)
	file := filepath.Join(dir, "input.txt")
	if err := os.WriteFile(file, []byte(cs.Input), 0o644); err != nil {
		c.Inconclusive("cannot write cli input: " + err.Error())
		return nil
	}
	args := append(append([]string{}, cs.Args...), file)
	var stdout, stderr bytes.Buffer
attempts:
	for attempt := 1; ; attempt++ {
		stdout.Reset()
		stderr.Reset()
		cmd := exec.Command(c.RareBin, args...)
		cmd.Stdout, cmd.Stderr = &stdout, &stderr
		cmd.Env = append(os.Environ(), "GOTRACEBACK=crash") // crash: every thread dumps its own stack on SIGQUIT (a goroutine running on another thread is otherwise "stack unavailable")
		if err := cmd.Start(); err != nil {
			c.Inconclusive("cannot start rare: " + err.Error())
			return nil
		}
		done := make(chan error, 1)
		go func() { done <- cmd.Wait() }()
		c.Count("cli_runs", 1)
		// Non-termination is judged on the CPU time the child has consumed, not on
		// wall time: a terminating run on a few input lines needs some 10 ms of CPU
		// however loaded the machine is, a renderer that loops burns CPU without end.
		// 4 s of CPU is >100x the need of a terminating run. The wall limit is only a
		// backstop and by itself inconclusive.
		const cpuLimit = 4.0
		wallLimit := time.Now().Add(10 * time.Minute)
		stuck, finished := false, false
		for !finished {
			select {
			case <-done:
				finished = true
			case <-time.After(150 * time.Millisecond):
				cpu := cpuSeconds(cmd.Process.Pid)
				select {
				case <-done: // it ended while we looked: whatever /proc showed is not about a running child
					finished = true
					continue
				default:
				}
				if cpu >= cpuLimit {
					stuck = true
				}
				if stuck || time.Now().After(wallLimit) {
					// stuck-state evidence: ask the runtime for the goroutine dump, then kill
					cmd.Process.Signal(syscall.SIGQUIT)
					select {
					case <-done:
					case <-time.After(3 * time.Minute):
						cmd.Process.Kill()
						<-done
					}
					dump := stderr.String()
					where := ""
					for _, ln := range strings.Split(dump, "\n") {
						if strings.HasPrefix(ln, "rare/pkg/multiterm/") || strings.HasPrefix(ln, "rare/pkg/color") {
							where = strings.TrimSpace(ln)
							break
						}
					}
					if stuck && where == "" && attempt < 3 {
						// the dump did not show where it spins (signal taken by another thread): look again
						c.Count("cli_hang_evidence_retries", 1)
						continue attempts
					}
					if stuck && where != "" {
						e.fail("hang", "`rare %s` on input %s does not terminate: it had used %.0f s of CPU (a terminating run needs ~0.01 s) and the goroutine dump taken then shows it inside %s", strings.Join(cs.Args, " "), run.Q(cs.Input), cpuLimit, where)
					} else {
						c.Inconclusive(fmt.Sprintf("cli run stopped (cpu-bound=%v) without a renderer frame in its dump: rare %s", stuck, strings.Join(cs.Args, " ")))
					}
					return classes
				}
			}
		}
		break
	}
	se := stderr.String()
	if i := strings.Index(se, "panic: "); i >= 0 && strings.Contains(se, "goroutine ") {
		e.fail("panic", "`rare %s` on input %s died with a Go panic:\n%s", strings.Join(cs.Args, " "), run.Q(cs.Input), clip(se[i:], 1500))
	} else if i := strings.Index(se, "fatal error: "); i >= 0 && strings.Contains(se, "goroutine ") {
		e.fail("panic", "`rare %s` on input %s died with a fatal runtime error:\n%s", strings.Join(cs.Args, " "), run.Q(cs.Input), clip(se[i:], 1500))
	} else {
		e.checkFormatWiring(stdout.String(), se)
		e.checkHeatLegendScale(file, stdout.String(), se)
	}
	return classes
}

// checkHeatLegendScale: with both bounds pinned (--min a --max b, b >= 1000a) the heat map's legend is a function of the
// bounds, the scale and the formatter alone. The same command with the other scale (linear <-> log10) must therefore show
// another legend, and under log10 the step after the minimum is far below the linear one. (cmd/heatmap.go applies the
// pinned bounds, the scale and the formatter one after the other; a legend drawn before the last of them is stale.)
func (e *env) checkHeatLegendScale(file, out, se string) {
	cs, c := e.cs, e.c
	if len(cs.Args) == 0 || cs.Args[0] != "heatmap" || !matchedSome.MatchString(se+"\n"+out) {
		return
	}
	get := func(flag string) (string, int) {
		for i, a := range cs.Args {
			if a == flag && i+1 < len(cs.Args) {
				return cs.Args[i+1], i + 1
			}
		}
		return "", -1
	}
	mn, _ := get("--min")
	mx, _ := get("--max")
	sc, si := get("--scale")
	if fm, _ := get("--format"); fm != "" && fm != "{0}" {
		return
	}
	var a, b int64
	if _, err := fmt.Sscan(mn, &a); err != nil || a < 1 {
		return
	}
	if _, err := fmt.Sscan(mx, &b); err != nil || b < 1000*a || si < 0 || (sc != "linear" && sc != "log10") {
		return
	}
	other := map[string]string{"linear": "log10", "log10": "linear"}[sc]
	args := append([]string{}, cs.Args...)
	args[si] = other
	args = append(args, file)
	cmd := exec.Command(c.RareBin, args...)
	var o2 bytes.Buffer
	cmd.Stdout = &o2
	done := make(chan error, 1)
	if err := cmd.Start(); err != nil {
		return
	}
	go func() { done <- cmd.Wait() }()
	select {
	case <-done:
	case <-time.After(2 * time.Minute):
		cmd.Process.Kill()
		<-done
		return
	}
	l1 := strings.SplitN(out, "\n", 2)[0]
	l2 := strings.SplitN(o2.String(), "\n", 2)[0]
	c.Count("cli_heatmap_legends_compared_across_scales", 1)
	if l1 == l2 {
		e.fail("proportional:heat", "`rare %s` shows the legend %q, and so does the same command with --scale %s: the legend does not follow the chosen scale", strings.Join(cs.Args, " "), l1, other)
	}
}

var bracketNum = regexp.MustCompile(`<-?[0-9][0-9,]*>`)
var matchedSome = regexp.MustCompile(`Matched: ([1-9][0-9,]*) /`)

// checkFormatWiring: "displayed numbers equal the aggregated numbers under the CHOSEN formatter" end to
// end. The generated keys are \w+ and never contain '<', so with `--format "<{0}>"` every displayed
// number of a run that matched something carries the brackets, and without --format none does.
func (e *env) checkFormatWiring(out, se string) {
	cs, c := e.cs, e.c
	fm, has := "", false
	for i, a := range cs.Args {
		if a == "--format" && i+1 < len(cs.Args) {
			fm, has = cs.Args[i+1], true
		}
	}
	if len(cs.Args) == 0 || cs.Args[0] == "reduce" || !matchedSome.MatchString(se+"\n"+out) {
		return
	}
	// the positive claim only where numbers are certainly displayed: histogram, bar graph and table rows
	// with non-zero row/column limits (a heatmap draws glyphs, a sparkline with no column has no numbers)
	numbersShown := cs.Args[0] == "histo" || cs.Args[0] == "bars" || cs.Args[0] == "table" || cs.Args[0] == "heatmap" // (a heat map's legend is numbers)
	for i, a := range cs.Args {
		if (a == "--cols" || a == "--rows" || a == "-n") && i+1 < len(cs.Args) && cs.Args[i+1] == "0" {
			numbersShown = false
		}
	}
	c.Count("cli_format_wiring_checked", 1)
	got := bracketNum.MatchString(out)
	switch {
	case has && fm == "<{0}>" && !got && numbersShown:
		e.fail("number", "`rare %s` matched lines but no displayed number carries the --format \"<{0}>\" decoration; output:\n%s", strings.Join(cs.Args, " "), clip(out, 600))
	case !has && got:
		e.fail("number", "`rare %s` (no --format) displays a number decorated like <n>; output:\n%s", strings.Join(cs.Args, " "), clip(out, 600))
	}
}

// cpuSeconds: user+system CPU time of a live process (0 when unknown).
func cpuSeconds(pid int) float64 {
	b, err := os.ReadFile(fmt.Sprintf("/proc/%d/stat", pid))
	if err != nil {
		return 0
	}
	// the command name may contain spaces: fields are counted after the last ')'
	i := bytes.LastIndexByte(b, ')')
	if i < 0 {
		return 0
	}
	f := strings.Fields(string(b[i+1:]))
	if len(f) < 13 {
		return 0
	}
	// the child may have exited and its pid been reused (pid_max is 32768 here and
	// the machine churns processes): only a process whose parent is this harness counts
	if f[1] != fmt.Sprint(os.Getpid()) {
		return 0
	}
	var ut, st float64
	fmt.Sscan(f[11], &ut)
	fmt.Sscan(f[12], &st)
	return (ut + st) / 100 // USER_HZ
}

func clip(s string, n int) string {
	if len(s) > n {
		return s[:n] + "…"
	}
	return s
}

const cliMatch = `^(\w*) (\w+) (-?\d+)$`

func genCLI(c *run.Ctx, r *run.Rand) *Case {
	cs := &Case{Kind: "cli"}
	nr, nc := r.Range(1, 6), r.Range(1, 8)
	rows := make([]string, nr)
	cols := make([]string, nc)
	for i := range rows {
		rows[i] = r.Pick([]string{"r", "row", "GET", "x"}) + fmt.Sprint(i)
	}
	for i := range cols {
		cols[i] = r.Pick([]string{"c", "col", "200", "y"}) + fmt.Sprint(i)
	}
	incMode := r.Intn(5) // 0 ones, 1 small incl zero, 2 zeros, 3 signed, 4 huge
	inc := func() int64 {
		switch incMode {
		case 0:
			return 1
		case 1:
			return int64(r.Range(0, 9))
		case 2:
			return 0
		case 3:
			return int64(r.Range(-9, 9))
		}
		return int64(r.Range(1, 9)) * pow10(r.Range(10, 16))
	}
	sc := r.Pick(scales)
	fm := r.Pick([]string{"", "", "bytesize", "{0}", "<{0}>"})
	ex := "{$ {1} {2} {3}}"
	common := []string{"--snapshot", "-m", cliMatch, "-e", ex}
	withFmt := func(a []string) []string {
		if fm != "" {
			a = append(a, "--format", fm)
		}
		return a
	}
	lim := func(n int) string { return fmt.Sprint(pickLimit(r, n)) }
	which := r.Intn(7)
	switch which {
	case 0:
		cs.Args = withFmt([]string{"histo", "-x", "-n", lim(nc), "--scale", sc, "--atleast", "-100"})
		cs.Args = append(cs.Args, "--snapshot", "-m", cliMatch, "-e", "{$ {1} {3}}")
		common = nil
	case 1:
		cs.Args = withFmt([]string{"bars", "--scale", sc})
	case 2:
		cs.Args = withFmt([]string{"bars", "-s"})
		// stacked: stay out of the listed classes by construction
		zeroOK := !c.KnownActive(fpStackZero)
		negOK := !c.KnownActive(fpStackNeg) && zeroOK
		if incMode == 4 && c.KnownActive(fpStackOvf) {
			incMode = 1
		}
		if incMode == 3 && !negOK {
			incMode = 1
		}
		if (incMode == 1 || incMode == 2) && !zeroOK {
			incMode = 0
		}
		if incMode == 1 || incMode == 2 || incMode == 3 {
			cs.Class = append(cs.Class, fpStackZero)
		}
	case 3:
		cs.Args = withFmt([]string{"table", "--cols", lim(nc), "--rows", lim(nr)})
		if r.Bool() {
			cs.Args = append(cs.Args, "-x")
		}
	case 4:
		cs.Args = withFmt([]string{"heatmap", "--cols", lim(nc), "--rows", lim(nr), "--scale", sc})
		if r.Intn(2) == 0 && (sc == "linear" || sc == "log10") {
			// both bounds pinned, three decades or more apart: the legend is then a function of bounds, scale and formatter
			cs.Args = append(cs.Args, "--min", fmt.Sprint(r.Range(1, 3)), "--max", fmt.Sprint(r.Range(3, 90)*1000))
		} else {
			if r.Intn(3) == 0 {
				cs.Args = append(cs.Args, "--min", fmt.Sprint(r.Range(-3, 5)))
			}
			if r.Intn(3) == 0 {
				cs.Args = append(cs.Args, "--max", fmt.Sprint(r.Range(-3, 50)))
			}
		}
		if r.Intn(4) == 0 && !c.KnownActive(fpHeatHang) {
			cols[0] = "" // an empty column key (`(\w*)` matches nothing)
			cs.Class = append(cs.Class, fpHeatHang)
		}
	case 5:
		cl := lim(nc)
		cs.Args = withFmt([]string{"spark", "--rows", lim(nr), "--scale", sc})
		if r.Bool() {
			if cl == "0" && c.KnownActive(fpSparkZero) {
				cl = "1"
			}
			cs.Args = append(cs.Args, "--notruncate")
			if cl == "0" {
				cs.Class = append(cs.Class, fpSparkZero)
			}
		}
		cs.Args = append(cs.Args, "--cols", cl)
	default:
		cs.Args = []string{"reduce", "-g", "g={1}", "-a", "total={sumi {.} {3}}", "-a", "n={sumi {.} 1}", "--cols", lim(3), "--rows", lim(nc)}
		if r.Bool() {
			cs.Args = append(cs.Args, "--table")
		}
		cs.Args = append(cs.Args, "--snapshot", "-m", cliMatch)
		common = nil
	}
	cs.Args = append(cs.Args, common...)
	var sb strings.Builder
	n := r.Range(1, 3*nr*nc)
	for i := 0; i < n; i++ {
		v := inc()
		if v == math.MinInt64 {
			v = 0
		}
		fmt.Fprintf(&sb, "%s %s %d\n", cols[r.Intn(nc)], rows[r.Intn(nr)], v)
	}
	cs.Input = sb.String()
	return cs
}

func cliCases(c *run.Ctx) {
	if c.RareBin == "" {
		c.Note("cli cases skipped: no rare binary")
		return
	}
	N := c.N(96, 1600)
	for i := 0; i < N; i++ {
		if !c.Mine(i) {
			continue
		}
		cs := genCLI(c, c.Rand("cli", i))
		c.Begin(cs, 15*time.Minute)
		c.SetAdd("cli_commands", cs.Args[0])
		runCase(c, cs)
		c.End()
		if c.Violations() >= 6 {
			return
		}
	}
}
