package p14

import (
	"fmt"
	"math"
	"strings"
	"time"

	"verifharness/internal/run"
)

// ---------------------------------------------------------------- keys

var (
	plainKeys = []string{"a", "b", "GET", "POST", "alpha", "beta", "k", "key", "x1", "zz", "Total", "First", "Last", "more", "n"}
	numKeys   = []string{"0", "1", "2", "10", "200", "404", "500", "1000000", "-5", "3.5", "007"}
	multiKeys = []string{"é", "日本語", "ключ", "🙂", "🙂🙂🙂", "á", "ﬃ", "ß", "中", "한국어키", "naïve", "Ωmega"}
	sgrKeys   = []string{"\x1b[31mred\x1b[0m", "\x1b[1;32mG", "pre\x1b[0m", "\x1b[38;5;196mX\x1b[0m", "a\x1b[4mb\x1b[0mc", "\x1b[33m"}
	zeroKeys  = []string{"", "\x1b[4m", "\x1b[0m", "\x1b[31m\x1b[0m"}
	spaceKeys = []string{" lead", "trail ", "in ner", " ", "   ", "a  b", " x "}
	glyphKeys = []string{"█", "|", "#", "-", "_", "...", "(", ")", "%", "%d", "%s", "[50.0%]", "▁▂▃", "0000", "1 KB", "=", "^", "||", "██"}
)

// genKeys returns n distinct keys. style biases the mix.
func genKeys(r *run.Rand, n int, style int, allowZeroWidth bool) []string {
	seen := map[string]bool{}
	out := make([]string, 0, n)
	for j := 0; len(out) < n; j++ {
		var k string
		cl := r.Intn(12)
		if style == 0 { // friendly
			cl = r.Intn(3)
		}
		switch cl {
		case 0, 1:
			k = r.Pick(plainKeys)
			if r.Intn(2) == 0 {
				k += fmt.Sprint(r.Intn(40))
			}
		case 2:
			k = r.Pick(numKeys)
			if r.Intn(2) == 0 {
				k = fmt.Sprint(r.Intn(100000))
			}
		case 3, 4:
			k = r.Pick(multiKeys)
			if r.Intn(3) == 0 {
				k += r.Pick(multiKeys)
			}
		case 5, 6:
			k = r.Pick(sgrKeys)
			if r.Intn(3) == 0 {
				k += r.Pick(plainKeys)
			}
		case 7:
			if allowZeroWidth {
				k = r.Pick(zeroKeys)
			} else {
				k = r.Pick(plainKeys)
			}
		case 8:
			k = r.Pick(spaceKeys)
		case 9:
			k = r.Pick(glyphKeys)
		case 10: // very long
			unit := r.Pick([]string{"x", "ab", "é", "long-key-", "日本"})
			k = strings.Repeat(unit, r.Range(17, 120)) + fmt.Sprint(j)
		default:
			k = r.Pick(plainKeys) + r.Pick(glyphKeys) + r.Pick(multiKeys)
		}
		if strings.HasSuffix(k, "more)") { // keeps the "(n more)" note unambiguous
			k += "."
		}
		if seen[k] {
			k = k + "#" + fmt.Sprint(j)
			if seen[k] {
				continue
			}
		}
		seen[k] = true
		out = append(out, k)
	}
	return out
}

// ---------------------------------------------------------------- increments

type incGen func() int64

func genInc(r *run.Rand) (incGen, string) {
	switch r.Intn(14) {
	case 0, 1:
		return func() int64 { return 1 }, "count"
	case 2, 3:
		return func() int64 { return int64(r.Range(0, 20)) }, "small"
	case 4:
		return func() int64 { return 0 }, "zero"
	case 5:
		return func() int64 { return int64(r.Range(-20, 20)) }, "signed"
	case 6:
		return func() int64 { return int64(r.Range(-20, -1)) }, "negative"
	case 7:
		return func() int64 { return int64(r.Range(1, 9)) * pow10(r.Range(12, 17)) }, "huge"
	case 8:
		return func() int64 {
			v := int64(r.Range(1, 9)) * pow10(r.Range(10, 17))
			if r.Bool() {
				return -v
			}
			return v
		}, "huge-signed"
	case 9:
		k := int64(r.Range(-3, 1000))
		return func() int64 { return k }, "equal"
	case 10:
		return func() int64 { return int64(r.Range(1, 100000)) }, "medium"
	case 11:
		return func() int64 { // exponential spread: good for log scales
			return int64(1) << uint(r.Range(0, 40))
		}, "pow2"
	case 12:
		return func() int64 {
			switch r.Intn(10) {
			case 0:
				return math.MaxInt64
			case 1:
				return math.MinInt64
			case 2:
				return math.MaxInt64 / 50
			case 3:
				return math.MaxInt64/50 + 1
			case 4:
				return 0
			}
			return r.I64() >> uint(r.Range(0, 62))
		}, "extreme"
	default:
		return func() int64 {
			switch r.Intn(6) {
			case 0:
				return 0
			case 1:
				return int64(r.Range(-5, 5))
			case 2:
				return int64(r.Range(1, 9)) * pow10(r.Range(0, 17))
			}
			return int64(r.Range(1, 50))
		}, "mixed"
	}
}

func pow10(n int) int64 {
	v := int64(1)
	for i := 0; i < n; i++ {
		v *= 10
	}
	return v
}

func pickLimit(r *run.Rand, n int) int {
	switch r.Intn(10) {
	case 0:
		return 0
	case 1:
		return 1
	case 2:
		return 2
	case 3:
		return 5
	case 4:
		return 20
	case 5:
		return n
	case 6:
		return maxI(n-1, 0)
	case 7:
		return n + 1
	case 8:
		return 200
	}
	return r.Range(0, n+3)
}

func pickSize(r *run.Rand, big bool) int {
	switch r.Intn(10) {
	case 0:
		return 1
	case 1, 2:
		return r.Range(2, 3)
	case 3, 4, 5:
		return r.Range(2, 8)
	case 6, 7:
		return r.Range(5, 30)
	case 8:
		return r.Range(20, 70)
	}
	if big {
		return r.Range(60, 200)
	}
	return r.Range(20, 70)
}

// split samples into 1..6 render steps
func splitSteps(r *run.Rand, all []Sample) [][]Sample {
	n := 1
	if r.Intn(3) > 0 {
		n = r.Range(2, 6)
	}
	if n > len(all) && len(all) > 0 {
		n = len(all)
	}
	if len(all) == 0 {
		if r.Bool() {
			return [][]Sample{{}}
		}
		return [][]Sample{{}, {}}
	}
	cuts := make([]int, 0, n)
	for i := 0; i < n-1; i++ {
		cuts = append(cuts, r.Range(0, len(all)))
	}
	// insertion sort
	for i := 1; i < len(cuts); i++ {
		for j := i; j > 0 && cuts[j] < cuts[j-1]; j-- {
			cuts[j], cuts[j-1] = cuts[j-1], cuts[j]
		}
	}
	var steps [][]Sample
	prev := 0
	for _, cpos := range cuts {
		steps = append(steps, all[prev:cpos])
		prev = cpos
	}
	steps = append(steps, all[prev:])
	return steps
}

var scales = []string{"linear", "log2", "log10"}
var fmts = []string{"default", "pass", "expr"}
var sorts = []string{"name", "value"}

func genRender(r *run.Rand, thorough bool) *Case {
	cs := &Case{Color: r.Bool(), Unicode: r.Bool(), Scale: r.Pick(scales), Fmt: r.Pick(fmts), RSort: r.Pick(sorts), CSort: r.Pick(sorts)}
	if r.Intn(3) == 0 {
		cs.Scale = "linear"
	}
	style := r.Intn(4) // 0 = friendly keys
	inc, _ := genInc(r)
	kind := r.Intn(20)
	switch {
	case kind < 4:
		cs.Kind = "histo"
		n := pickSize(r, true)
		keys := genKeys(r, n, style, true)
		cs.Rows = pickLimit(r, n)
		cs.Bar, cs.Pct = r.Intn(4) > 0, r.Bool()
		if r.Intn(3) == 0 {
			cs.Bar = false // the histogram command's default
		}
		if r.Intn(3) == 0 {
			// a formatter that shows the bounds it was given: every number on the final screen must have been formatted
			// against the final maximum (rows drawn before the maximum grew have to be drawn again, bars or no bars)
			cs.Fmt = "exprmax"
		}
		cs.Over = r.Intn(4) == 0
		var all []Sample
		for j := 0; j < n; j++ {
			all = append(all, Sample{A: keys[j], Inc: inc()})
		}
		extra := r.Range(0, 3*n)
		for j := 0; j < extra; j++ {
			all = append(all, Sample{A: keys[r.Intn(n)], Inc: inc()})
		}
		shuffle(r, all)
		cs.Steps = splitSteps(r, all)
	case kind < 9:
		cs.Kind = "bars"
		if r.Intn(5) < 2 {
			cs.Kind = "stack"
			cs.Scale = ""
		}
		n := pickSize(r, false)
		if n > 40 {
			n = r.Range(2, 40)
		}
		k := 1
		if r.Intn(4) > 0 {
			k = r.Range(1, 6)
			if r.Intn(6) == 0 {
				k = r.Range(6, 20)
			}
		}
		keys := genKeys(r, n, style, true)
		subs := genKeys(r, k, style, true)
		if k == 1 && r.Bool() {
			subs[0] = "" // the single empty sub key of `-e '{1}'`
		}
		if cs.Kind == "stack" {
			// the usual stacked input is non-negative; other classes come through genInc
			if r.Intn(3) > 0 {
				inc = func() int64 { return int64(r.Range(0, 30)) }
			}
		}
		var all []Sample
		for j := 0; j < maxI(n, k); j++ {
			all = append(all, Sample{A: keys[j%n], B: subs[j%k], Inc: inc()})
		}
		extra := r.Range(0, 4*maxI(n, k))
		for j := 0; j < extra; j++ {
			all = append(all, Sample{A: keys[r.Intn(n)], B: subs[r.Intn(k)], Inc: inc()})
		}
		shuffle(r, all)
		cs.Steps = splitSteps(r, all)
	case kind < 18:
		switch {
		case kind < 12:
			cs.Kind = "table"
			cs.Scale = ""
			cs.RowTot, cs.ColTot = r.Bool(), r.Bool()
		case kind < 15:
			cs.Kind = "heat"
			if r.Intn(4) == 0 {
				v := int64(r.Range(-10, 50))
				if r.Intn(4) == 0 {
					v = r.I64() >> uint(r.Range(0, 62))
				}
				cs.FixMin = &v
			}
			if r.Intn(4) == 0 {
				v := int64(r.Range(-10, 200))
				if r.Intn(4) == 0 {
					v = r.I64() >> uint(r.Range(0, 62))
				}
				cs.FixMax = &v
			}
		default:
			cs.Kind = "spark"
		}
		nr, nc := pickSize(r, thorough || r.Intn(4) == 0), pickSize(r, thorough || r.Intn(4) == 0)
		// zero-width column keys matter for the heatmap header; keep them at a modest rate
		rows := genKeys(r, nr, style, true)
		cols := genKeys(r, nc, style, r.Intn(3) == 0)
		cs.Rows, cs.Cols = pickLimit(r, nr), pickLimit(r, nc)
		var all []Sample
		for j := 0; j < maxI(nr, nc); j++ {
			all = append(all, Sample{A: cols[j%nc], B: rows[j%nr], Inc: inc()})
		}
		dens := r.Intn(4)
		extra := 0
		switch dens {
		case 0:
			extra = r.Range(0, nr+nc)
		case 1:
			extra = nr * nc / 2
		default:
			extra = r.Range(0, 2*nr*nc)
		}
		if extra > 2500 {
			extra = 2500
		}
		for j := 0; j < extra; j++ {
			all = append(all, Sample{A: cols[r.Intn(nc)], B: rows[r.Intn(nr)], Inc: inc()})
		}
		shuffle(r, all)
		cs.Steps = splitSteps(r, all)
	default:
		cs.Kind = "rtable"
		cs.Scale, cs.Fmt, cs.RSort, cs.CSort = "", "", "", ""
		ncol := r.Range(1, 8)
		cs.THead = genKeys(r, ncol, style, true)
		cs.Cols = pickLimit(r, ncol)
		ngroups := pickSize(r, false)
		cs.Rows = pickLimit(r, ngroups+1)
		groups := genKeys(r, ngroups, style, true)
		steps := r.Range(1, 5)
		shown := 0
		var cur [][]string
		for s := 0; s < steps; s++ {
			if s == steps-1 {
				shown = ngroups
			} else {
				shown = minI(ngroups, shown+r.Range(0, ngroups))
			}
			// rows 0..shown-1 in a (possibly changing) order; cells change between renders
			p := r.Perm(ngroups)
			cur = cur[:0]
			cnt := 0
			for _, gi := range p {
				if cnt >= shown {
					break
				}
				cnt++
				row := make([]string, ncol)
				row[0] = groups[gi]
				for j := 1; j < ncol; j++ {
					switch r.Intn(6) {
					case 0:
						row[j] = ""
					case 1:
						row[j] = r.Pick(multiKeys)
					case 2:
						row[j] = fmt.Sprint(inc())
					case 3:
						row[j] = strings.Repeat("9", r.Range(1, 30))
					default:
						row[j] = fmt.Sprint(r.Intn(100000))
					}
				}
				if r.Intn(12) == 0 {
					row = row[:r.Range(0, ncol)] // a shorter row
				}
				cur = append(cur, row)
			}
			cp := make([][]string, len(cur))
			copy(cp, cur)
			cs.TSteps = append(cs.TSteps, cp)
		}
	}
	return cs
}

func shuffle(r *run.Rand, a []Sample) {
	for i := len(a) - 1; i > 0; i-- {
		j := r.Intn(i + 1)
		a[i], a[j] = a[j], a[i]
	}
}

func caseKeys(cs *Case) int {
	seen := map[string]bool{}
	for _, st := range cs.Steps {
		for _, s := range st {
			seen[s.A+"\x00"+s.B] = true
		}
	}
	n := len(seen)
	for _, st := range cs.TSteps {
		if len(st) > n {
			n = len(st)
		}
	}
	return n
}

func renderCases(c *run.Ctx) {
	N := c.N(7000, 140000)
	for i := 0; i < N; i++ {
		if !c.Mine(i) {
			continue
		}
		r := c.Rand("render", i)
		cs := genRender(r, c.Thorough())
		c.Begin(cs, 4*time.Minute)
		if caseKeys(cs) >= 2 {
			c.Nontrivial(caseHash(cs))
		}
		c.Count("cases_"+cs.Kind, 1)
		c.SetAdd("configs", fmt.Sprintf("%s/%s/%s/c%v/u%v", cs.Kind, cs.Scale, cs.Fmt, cs.Color, cs.Unicode))
		if i < 4 {
			c.Sample(map[string]any{"kind": cs.Kind, "config": describe(cs), "first_samples": firstSamples(cs)})
		}
		runCase(c, cs)
		c.End()
		if c.Violations() >= 6 {
			return
		}
	}
}

func firstSamples(cs *Case) []Sample {
	var out []Sample
	for _, st := range cs.Steps {
		for _, s := range st {
			if len(out) < 5 {
				out = append(out, s)
			}
		}
	}
	return out
}
