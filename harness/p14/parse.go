package p14

import (
	"fmt"
	"strings"
)

// vis returns the visible runes of s. With colour on, every SGR sequence
// (ESC … 'm') is invisible; with colour off rare documents that every rune
// counts ("If color disabled, returns len(s)"), so nothing is removed. The
// generator only emits well-formed SGR sequences, so this agrees with what a
// terminal shows in the colour-on case.
func vis(s string, colorOn bool) []rune {
	if !colorOn {
		return []rune(s)
	}
	out := make([]rune, 0, len(s))
	in := false
	for _, r := range s {
		switch {
		case r == 0x1b:
			in = true
		case in:
			if r == 'm' {
				in = false
			}
		default:
			out = append(out, r)
		}
	}
	return out
}

func visStr(s string, colorOn bool) string { return string(vis(s, colorOn)) }

func hasPrefix(a, p []rune) bool {
	if len(p) > len(a) {
		return false
	}
	for i := range p {
		if a[i] != p[i] {
			return false
		}
	}
	return true
}

func hasSuffix(a, p []rune) bool {
	if len(p) > len(a) {
		return false
	}
	off := len(a) - len(p)
	for i := range p {
		if a[off+i] != p[i] {
			return false
		}
	}
	return true
}

func allSpaces(a []rune) bool {
	for _, r := range a {
		if r != ' ' {
			return false
		}
	}
	return true
}

func skipSpaces(a []rune) []rune {
	i := 0
	for i < len(a) && a[i] == ' ' {
		i++
	}
	return a[i:]
}

// ---------------------------------------------------------------- bars

// Unicode block elements U+2588 (full) … U+258F (left one eighth): the width
// in eighths of a cell is 0x2590 - codepoint.
func blockEighths(r rune) int {
	if r >= 0x2588 && r <= 0x258f {
		return 0x2590 - int(r)
	}
	return 0
}

// measureBar: cells and length in eighths of a (non stacked) bar.
func measureBar(b []rune, unicode bool) (cells, units int, ok bool) {
	for i, r := range b {
		if unicode {
			e := blockEighths(r)
			if e == 0 {
				return 0, 0, false
			}
			if e < 8 && i != len(b)-1 {
				return 0, 0, false // a partial block in the middle of a bar
			}
			units += e
		} else {
			if r != '|' {
				return 0, 0, false
			}
			units += 8
		}
	}
	return len(b), units, true
}

// afterLastSpace splits a at the last space: (head incl. the space, tail).
func afterLastSpace(a []rune) (head, tail []rune) {
	for i := len(a) - 1; i >= 0; i-- {
		if a[i] == ' ' {
			return a[:i+1], a[i+1:]
		}
	}
	return nil, a
}

// ---------------------------------------------------------------- glyph levels

func sparkLevel(r rune, unicode bool) int {
	if unicode {
		if r == '_' {
			return 0
		}
		if r >= 0x2581 && r <= 0x2588 { // LOWER ONE EIGHTH BLOCK … FULL BLOCK
			return int(r-0x2581) + 1
		}
		return -1
	}
	return strings.IndexRune("_.-^", r)
}

func sparkLevels(unicode bool) int {
	if unicode {
		return 9
	}
	return 4
}

// heat cells: colour off → "-123456789" (level = digit); colour on → one
// block glyph per cell whose colour is not judged (level -2 = unknown).
func heatLevel(r rune, colorOn, unicode bool) int {
	if !colorOn {
		return strings.IndexRune("-123456789", r)
	}
	if unicode && r == 0x2588 || !unicode && r == '#' {
		return -2
	}
	return -1
}

// ---------------------------------------------------------------- table alignment

const (
	cExact = iota // the visible text is known exactly
	cClass        // exactly n glyphs of a class (a sparkline)
	cAny          // starts with text, rest unknown (the spark header cell)
)

type cell struct {
	kind  int
	text  []rune
	n     int
	class func(rune) bool
}

func exact(s []rune) cell  { return cell{kind: cExact, text: s} }
func exactS(s string) cell { return cell{kind: cExact, text: []rune(s)} }
func (c cell) minLen() int {
	if c.kind == cClass {
		return c.n
	}
	return len(c.text)
}

func (c cell) fits(content []rune) bool {
	switch c.kind {
	case cExact:
		return hasPrefix(content, c.text) && allSpaces(content[len(c.text):])
	case cClass:
		if len(content) < c.n {
			return false
		}
		for _, r := range content[:c.n] {
			if !c.class(r) {
				return false
			}
		}
		return allSpaces(content[c.n:])
	default:
		return hasPrefix(content, c.text)
	}
}

func (c cell) String() string {
	switch c.kind {
	case cExact:
		return fmt.Sprintf("%q", string(c.text))
	case cClass:
		return fmt.Sprintf("<%d glyphs>", c.n)
	}
	return fmt.Sprintf("%q…", string(c.text))
}

// alignable decides the statement "table columns line up" exactly: do common
// column widths W_0, W_1, … exist such that every line is the concatenation
// of its expected cells, cell i left-justified in W_i and followed by one
// space? (Widths may be larger than any current cell: they legitimately
// persist from earlier renders.) It also decides "displayed = expected" for
// every cell, because the cells are matched by content.
func alignable(rows [][]cell, lines [][]rune) bool {
	type key struct{ col, off int }
	memo := map[key]bool{}
	var solve func(col, off int) bool
	solve = func(col, off int) bool {
		k := key{col, off}
		if v, ok := memo[k]; ok {
			return v
		}
		res := func() bool {
			minW, maxW := 0, 1<<30
			active := 0
			for r, row := range rows {
				if len(row) < col {
					continue
				}
				if len(row) == col {
					if len(lines[r]) != off {
						return false
					}
					continue
				}
				active++
				if l := row[col].minLen(); l > minW {
					minW = l
				}
				if m := len(lines[r]) - off - 1; m < maxW {
					maxW = m
				}
			}
			if active == 0 {
				return true
			}
			for w := minW; w <= maxW; w++ {
				ok := true
				for r, row := range rows {
					if len(row) <= col {
						continue
					}
					ln := lines[r]
					if ln[off+w] != ' ' || !row[col].fits(ln[off:off+w]) {
						ok = false
						break
					}
				}
				if ok && solve(col+1, off+w+1) {
					return true
				}
			}
			return false
		}()
		memo[k] = res
		return res
	}
	return solve(0, 0)
}

func describeTable(rows [][]cell, lines [][]rune) string {
	var sb strings.Builder
	for r := range rows {
		if r >= 12 {
			fmt.Fprintf(&sb, "  … %d more rows\n", len(rows)-r)
			break
		}
		fmt.Fprintf(&sb, "  row %d expected cells [", r)
		for i, c := range rows[r] {
			if i > 0 {
				sb.WriteString(" ")
			}
			if i >= 10 {
				fmt.Fprintf(&sb, "…(%d cells)", len(rows[r]))
				break
			}
			sb.WriteString(c.String())
		}
		l := string(lines[r])
		if len(l) > 300 {
			l = l[:300] + "…"
		}
		fmt.Fprintf(&sb, "] visible line %q\n", l)
	}
	return sb.String()
}
