package p14

import (
	"fmt"
	"math"
	"sort"
	"strconv"

	"rare/pkg/aggregation"
	"rare/pkg/aggregation/sorting"
	"rare/pkg/color"
	"rare/pkg/multiterm"
	"rare/pkg/multiterm/termformat"
	"rare/pkg/multiterm/termrenderers"
	"rare/pkg/multiterm/termscaler"
	"rare/pkg/multiterm/termunicode"

	"verifharness/internal/run"
)

const nul = "\x00"

var exprFormatter, exprMaxFormatter termformat.Formatter

func formatter(name string) termformat.Formatter {
	switch name {
	case "pass":
		return termformat.Passthru
	case "expr":
		if exprFormatter == nil {
			exprFormatter = withShadow(termformat.MustFromExpression("<{0}>"))
		}
		return exprFormatter
	case "exprmax":
		if exprMaxFormatter == nil {
			exprMaxFormatter = withShadow(termformat.MustFromExpression("{0}of{2}"))
		}
		return exprMaxFormatter
	}
	return termformat.Default
}

func scaler(name string) termscaler.Scaler {
	s, ok := termscaler.ScalerByName(name)
	if !ok {
		return termscaler.ScalerLinear
	}
	return s
}

func nvSorter(mode string) sorting.NameValueSorter {
	if mode == "value" {
		return sorting.NVValueSorter
	}
	return sorting.NVNameSorter
}

type nv struct {
	name string
	val  int64
}

// reference order: "name" = byte-wise ascending; "value" = value descending,
// ties by name ascending (both are strict total orders on distinct names).
func refOrder(items []nv, mode string) {
	sort.Slice(items, func(i, j int) bool {
		if mode == "value" && items[i].val != items[j].val {
			return items[i].val > items[j].val
		}
		return items[i].name < items[j].name
	})
}

func itoa(v int64) string { return strconv.FormatInt(v, 10) }

func maxI(a, b int) int {
	if a > b {
		return a
	}
	return b
}

func minI(a, b int) int {
	if a < b {
		return a
	}
	return b
}

func has(list []string, s string) bool {
	for _, x := range list {
		if x == s {
			return true
		}
	}
	return false
}

// ---------------------------------------------------------------- entry

func (e *env) runRender() (classes []string) {
	cs, c := e.cs, e.c
	color.Enabled = cs.Color
	termunicode.UnicodeEnabled = cs.Unicode
	defer func() {
		color.Enabled = false
		termunicode.UnicodeEnabled = true
	}()

	var exec func() // the real run, built by the planner
	p, val, stack := run.Guard(func() {
		switch cs.Kind {
		case "histo":
			classes, exec = e.planHisto()
		case "bars", "stack":
			classes, exec = e.planBars()
		case "table", "heat", "spark":
			classes, exec = e.planTable()
		case "rtable":
			exec = e.execRTable
		default:
			c.Inconclusive("unknown case kind " + cs.Kind)
		}
	})
	if p {
		e.fail("panic", "panic while building the aggregator state: %v\n%s", val, stack)
		return nil
	}
	if exec == nil {
		return nil
	}
	if cs.Pin == "" {
		// generated cases stay out of exactly the classes that are listed as known
		for _, cl := range classes {
			if c.KnownActive(cl) {
				c.Count("skipped_known_class", 1)
				return nil
			}
		}
	} else if has(classes, fpHeatHang) && c.KnownActive(fpHeatHang) {
		// a pinned non-terminating witness is executed through the CLI (killable)
		// while the defect is listed; in-process again once it is not.
		c.Count("pinned_hang_inprocess_deferred", 1)
		return nil
	}
	p, val, stack = run.Guard(exec)
	if p {
		e.fail("panic", "renderer panicked: %v\n%s", val, stack)
	}
	return classes
}

// ---------------------------------------------------------------- histogram

func (e *env) planHisto() ([]string, func()) {
	cs, c := e.cs, e.c
	capN := cs.Rows
	skipCapLine := cs.Pin == "" && c.KnownActive(fpHistoCap)
	type pass struct {
		items []nv
		total int64
	}
	var passes []pass
	agg := aggregation.NewCounter()
	for _, st := range cs.Steps {
		for _, s := range st {
			agg.Sample(s.A + nul + itoa(s.Inc))
		}
		raw := agg.Items()
		items := make([]nv, len(raw))
		for i, it := range raw {
			items[i] = nv{it.Name, it.Item.Count()}
		}
		refOrder(items, cs.RSort)
		if !cs.Over && len(items) > capN {
			items = items[:capN]
		}
		passes = append(passes, pass{items, agg.Total()})
	}
	// classification (what the driver below is going to do)
	var classes []string
	spacing := 16
	for pi, p := range passes {
		for line, it := range p.items {
			if line > capN {
				break
			}
			if line == capN {
				if !skipCapLine && !has(classes, fpHistoCap) {
					classes = append(classes, fpHistoCap)
				}
				break
			}
			kl := len(vis(it.name, cs.Color))
			if kl > spacing {
				if it.val <= 0 && pi == len(passes)-1 && !has(classes, fpHistoStale) {
					classes = append(classes, fpHistoStale)
				}
				spacing = kl
			}
		}
	}
	exec := func() {
		vt := multiterm.NewVirtualTerm()
		hw := termrenderers.NewHistogram(vt, capN)
		hw.ShowBar, hw.ShowPercentage = cs.Bar, cs.Pct
		hw.Scaler = scaler(cs.Scale)
		F := formatter(cs.Fmt)
		hw.Formatter = F
		runMax := int64(0)
		for _, p := range passes {
			hw.UpdateTotal(p.total)
			for line, it := range p.items {
				if line == capN && skipCapLine {
					continue
				}
				hw.WriteForLine(line, it.name, it.val)
				if line < capN && it.val > runMax {
					runMax = it.val
				}
			}
			hw.WriteFooter(0, foot0)
			hw.WriteFooter(1, foot1)
			c.Count("renders", 1)
		}
		if len(passes) == 0 {
			return
		}
		last := passes[len(passes)-1]
		e.checkHisto(vt, last.items, last.total, runMax, F)
	}
	return classes, exec
}

type barObs struct {
	val   int64
	units int
	where string
}

// monotone: a larger value never has a shorter bar, equal values have equal bars (+tol units).
func (e *env) checkMonotone(obs []barObs, tol int, what string) {
	sort.SliceStable(obs, func(i, j int) bool { return obs[i].val < obs[j].val })
	// running maximum of units over strictly smaller-or-equal values
	for i := 1; i < len(obs); i++ {
		a, b := obs[i-1], obs[i]
		if a.val == b.val {
			if tol == 0 && a.units != b.units {
				e.fail("monotone", "%s: equal values %d drawn with different lengths %d and %d (eighths of a cell / level) at %s and %s", what, a.val, a.units, b.units, a.where, b.where)
				return
			}
			continue
		}
	}
	best := -1 << 30
	var bestObs barObs
	for _, o := range obs {
		if o.units+tol < best && o.val > bestObs.val {
			e.fail("monotone", "%s: value %d (%s) is drawn with length %d but the smaller value %d (%s) with length %d", what, o.val, o.where, o.units, bestObs.val, bestObs.where, best)
			return
		}
		if o.units > best {
			best, bestObs = o.units, o
		}
	}
}

func (e *env) checkHisto(vt *multiterm.VirtualTerm, items []nv, total, runMax int64, F termformat.Formatter) {
	cs, c := e.cs, e.c
	capN := cs.Rows
	k := minI(capN, len(items))
	var obs []barObs
	for i := 0; i < k; i++ {
		it := items[i]
		raw := vt.Get(i)
		V := vis(raw, cs.Color)
		Kv := vis(it.name, cs.Color)
		N := []rune(F(it.val, 0, runMax))
		if !hasPrefix(V, Kv) {
			e.fail("layout", "histogram line %d should show key %s value %d but is %s", i, run.Q(it.name), it.val, run.Q(raw))
			return
		}
		rest := skipSpaces(V[len(Kv):])
		if !hasPrefix(rest, N) {
			e.fail("number", "histogram line %d (key %s): displayed number should be %q (value %d under formatter %s), line is %s", i, run.Q(it.name), string(N), it.val, cs.Fmt, run.Q(raw))
			return
		}
		c.Count("numbers_checked", 1)
		rest = skipSpaces(rest[len(N):])
		if len(rest) > 0 && rest[0] == '[' {
			end := -1
			for j := 1; j+1 < len(rest); j++ {
				if rest[j] == '%' && rest[j+1] == ']' {
					end = j
					break
				}
			}
			if end < 0 {
				e.fail("layout", "histogram line %d: unterminated percentage in %s", i, run.Q(raw))
				return
			}
			pv, err := strconv.ParseFloat(string(skipSpaces(rest[1:end])), 64)
			if err != nil {
				e.fail("layout", "histogram line %d: unparsable percentage in %s", i, run.Q(raw))
				return
			}
			if total > 0 {
				want := 100 * float64(it.val) / float64(total)
				if math.Abs(pv-want) > 0.0501+1e-9*math.Abs(want) {
					e.fail("number", "histogram line %d (key %s): percentage %v displayed, value %d of total %d is %.4f%%", i, run.Q(it.name), pv, it.val, total, want)
					return
				}
				c.Count("percentages_checked", 1)
			}
			rest = skipSpaces(rest[end+2:])
		} else if cs.Pct && total > 0 {
			e.fail("layout", "histogram line %d: percentage requested and total %d > 0 but none displayed: %s", i, total, run.Q(raw))
			return
		}
		cells, units, ok := measureBar(rest, cs.Unicode)
		if !ok {
			e.fail("layout", "histogram line %d: text after the number is not a bar: %s", i, run.Q(raw))
			return
		}
		if cells > 50 {
			e.fail("overwidth", "histogram line %d: bar of %d cells exceeds the maximum width 50 (value %d, running maximum %d)", i, cells, it.val, runMax)
			return
		}
		if cs.Bar && runMax > 0 {
			obs = append(obs, barObs{it.val, units, fmt.Sprintf("line %d", i)})
			c.Count("bars_checked", 1)
			if cs.Scale == "linear" && it.val >= 0 && it.val <= runMax {
				want := 400 * float64(it.val) / float64(runMax)
				if math.Abs(float64(units)-want) > 8.0001 {
					e.fail("proportional", "histogram line %d: linear bar of %d/8 cells for value %d with running maximum %d (proportional length %.1f/8 of 50 cells)", i, units, it.val, runMax, want)
					return
				}
			}
		}
	}
	e.checkMonotone(obs, 0, "histogram bars")
	for i := k; i < capN; i++ {
		if vt.Get(i) != "" {
			e.fail("extra-rows", "histogram line %d is beyond the %d rows offered but shows %s", i, k, run.Q(vt.Get(i)))
			return
		}
	}
	if vt.Get(capN) != foot0 {
		e.fail("extra-rows", "histogram with capacity %d: line %d should be the footer, is %s", capN, capN, run.Q(vt.Get(capN)))
	}
}

// ---------------------------------------------------------------- bar graph

type bRow struct {
	name string
	vals []int64
	sum  int64
}

// driveBars feeds a fresh SubKeyCounter step by step and, after every step,
// visits the rows the way cmd/bargraph.go does: SetKeys(counter.SubKeys()...),
// then WriteBar(line, row.Name, row.Item.Items()...) for the ordered rows. The
// value slices handed to visit are the aggregator's own (they alias its live
// counters, exactly as in the command).
func driveBars(cs *Case, pass func(keys []string), row func(idx int, name string, vals []int64), done func()) {
	agg := aggregation.NewSubKeyCounter()
	for _, st := range cs.Steps {
		for _, s := range st {
			agg.Sample(s.A + nul + s.B + nul + itoa(s.Inc))
		}
		raw := agg.Items()
		ord := make([]nv, len(raw))
		byName := map[string][]int64{}
		for i, it := range raw {
			ord[i] = nv{it.Name, it.Item.Count()}
			byName[it.Name] = it.Item.Items()
		}
		refOrder(ord, cs.RSort)
		pass(agg.SubKeys())
		for idx, o := range ord {
			row(idx, o.name, byName[o.name])
		}
		done()
	}
}

func barsAgg(stacked bool, vals []int64) int64 {
	var r int64
	for _, v := range vals {
		if stacked {
			r += v
		} else if v > r {
			r = v
		}
	}
	return r
}

func (e *env) planBars() ([]string, func()) {
	cs, c := e.cs, e.c
	stacked := cs.Kind == "stack"
	var classes []string
	add := func(cl string) {
		if !has(classes, cl) {
			classes = append(classes, cl)
		}
	}
	// classification: what is the driver below going to present to the renderer?
	{
		var held [][]int64 // the slices the renderer keeps per row index (still aliasing live counters)
		rm := int64(0)
		npass, pi := len(cs.Steps), 0
		unrep := false
		driveBars(cs, func([]string) {}, func(idx int, name string, vals []int64) {
			for idx >= len(held) {
				held = append(held, nil)
			}
			held[idx] = vals
			nm := barsAgg(stacked, vals)
			if nm > rm {
				// the renderer redraws every row it remembers; a remembered row whose
				// live counters have grown beyond the new maximum is the stale-redraw class
				rm = nm
				for j, h := range held {
					if j != idx {
						if a := barsAgg(stacked, h); a > nm {
							add(fpBarsStale)
							if a > rm {
								rm = a
							}
						}
					}
				}
			}
			if stacked {
				var pos, neg int64
				for _, v := range vals {
					if v > 0 {
						if pos > math.MaxInt64-v {
							unrep = true
						}
						pos += v
					} else {
						if neg < math.MinInt64-v {
							unrep = true
						}
						neg += v
					}
				}
				if rm == 0 && len(vals) > 0 {
					add(fpStackZero)
				}
				for _, v := range vals {
					if v > math.MaxInt64/50 || v < math.MinInt64/50 {
						add(fpStackOvf)
					}
					if v < 0 && pi == npass-1 {
						add(fpStackNeg)
					}
				}
			}
		}, func() { pi++ })
		if unrep {
			// a stacked row whose parts do not add up within int64: the row total (and with it
			// the scale of the whole graph) is not a number any more; not decided by this check
			c.Count("skipped_unrepresentable_stacked_total", 1)
			return nil, nil
		}
	}
	exec := func() {
		vt := multiterm.NewVirtualTerm()
		bg := termrenderers.NewBarGraph(vt)
		bg.Stacked = stacked
		if !stacked {
			bg.Scaler = scaler(cs.Scale)
		}
		F := formatter(cs.Fmt)
		bg.Formatter = F
		runMax := int64(0)
		var keys []string
		var rows []bRow
		negSeen := false
		driveBars(cs, func(k []string) {
			bg.SetKeys(k...)
			keys = append([]string(nil), k...)
			rows = rows[:0]
		}, func(idx int, name string, vals []int64) {
			bg.WriteBar(idx, name, vals...)
			cp := append([]int64(nil), vals...)
			var sum int64
			for _, v := range cp {
				sum += v
			}
			rows = append(rows, bRow{name, cp, sum})
			if a := barsAgg(stacked, cp); a > runMax {
				runMax = a
			}
			for _, v := range cp {
				if v < 0 {
					negSeen = true
				}
			}
		}, func() {
			bg.WriteFooter(0, foot0)
			bg.WriteFooter(1, foot1)
			c.Count("renders", 1)
		})
		if len(cs.Steps) == 0 {
			return
		}
		if stacked {
			e.checkStacked(vt, keys, rows, runMax, negSeen, F)
		} else {
			e.checkGrouped(vt, keys, rows, runMax, F)
		}
	}
	return classes, exec
}

func barsPrefix(keys []string) int {
	if len(keys) > 1 || (len(keys) == 1 && keys[0] != "") {
		return 1
	}
	return 0
}

func (e *env) checkGrouped(vt *multiterm.VirtualTerm, keys []string, rows []bRow, runMax int64, F termformat.Formatter) {
	cs, c := e.cs, e.c
	k := len(keys)
	prefix := barsPrefix(keys)
	var obs []barObs
	for idx, r := range rows {
		Kv := vis(r.name, cs.Color)
		for i := 0; i < k && i < len(r.vals); i++ {
			ln := prefix + idx*k + i
			raw := vt.Get(ln)
			V := vis(raw, cs.Color)
			N := []rune(" " + F(r.vals[i], 0, runMax))
			if !hasSuffix(V, N) {
				e.fail("number", "bargraph line %d (key %s, sub key %s): displayed number should be %q (value %d under formatter %s), line is %s", ln, run.Q(r.name), run.Q(keys[i]), string(N[1:]), r.vals[i], cs.Fmt, run.Q(raw))
				return
			}
			c.Count("numbers_checked", 1)
			head, bar := afterLastSpace(V[:len(V)-len(N)])
			cells, units, ok := measureBar(bar, cs.Unicode)
			if !ok {
				e.fail("layout", "bargraph line %d: text before the number is not a bar: %s", ln, run.Q(raw))
				return
			}
			if i == 0 {
				if !hasPrefix(head, Kv) || !allSpaces(head[len(Kv):]) || len(head) < len(Kv)+2 {
					e.fail("layout", "bargraph line %d should start with key %s and two spaces: %s", ln, run.Q(r.name), run.Q(raw))
					return
				}
			} else if !allSpaces(head) {
				e.fail("layout", "bargraph line %d (sub key %d of %s) should be indented with spaces only: %s", ln, i, run.Q(r.name), run.Q(raw))
				return
			}
			if cells > 50 {
				e.fail("overwidth", "bargraph line %d: bar of %d cells exceeds the maximum width 50 (value %d, running maximum %d)", ln, cells, r.vals[i], runMax)
				return
			}
			obs = append(obs, barObs{r.vals[i], units, fmt.Sprintf("line %d", ln)})
			c.Count("bars_checked", 1)
			if cs.Scale == "linear" && runMax > 0 && r.vals[i] >= 0 && r.vals[i] <= runMax {
				want := 400 * float64(r.vals[i]) / float64(runMax)
				if math.Abs(float64(units)-want) > 8.0001 {
					e.fail("proportional", "bargraph line %d: linear bar of %d/8 cells for value %d with running maximum %d (proportional length %.1f/8 of 50 cells)", ln, units, r.vals[i], runMax, want)
					return
				}
			}
		}
	}
	e.checkMonotone(obs, 0, "grouped bars")
}

// trailing SGR sequence ESC [ digits/; m
func cutTrailingSGR(s string) (string, bool) {
	if len(s) == 0 || s[len(s)-1] != 'm' {
		return s, false
	}
	i := len(s) - 2
	for i >= 0 && (s[i] >= '0' && s[i] <= '9' || s[i] == ';') {
		i--
	}
	if i < 1 || s[i] != '[' || s[i-1] != 0x1b {
		return s, false
	}
	return s[:i-1], true
}

// negSeen: some stacked row of this case had a negative segment. What the
// scale maximum of a stacked graph with negative parts should be is not
// documented (row sum? sum of the positive parts?), so the proportional law is
// then not judged at all and rows with a negative segment are judged on width
// and displayed total only.
func (e *env) checkStacked(vt *multiterm.VirtualTerm, keys []string, rows []bRow, runMax int64, negSeen bool, F termformat.Formatter) {
	cs, c := e.cs, e.c
	k := len(keys)
	prefix := barsPrefix(keys)
	const hexd = "0123456789ABCDEF"
	var segObs, totObs []barObs
	for idx, r := range rows {
		ln := prefix + idx
		raw := vt.Get(ln)
		Kv := vis(r.name, cs.Color)
		Ns := "  " + F(r.sum, 0, runMax)
		if len(raw) < len(Ns) || raw[len(raw)-len(Ns):] != Ns {
			e.fail("number", "stacked bargraph line %d (key %s): displayed total should be %q (sum %d of %v under formatter %s), line is %s", ln, run.Q(r.name), Ns[2:], r.sum, r.vals, cs.Fmt, run.Q(raw))
			return
		}
		c.Count("numbers_checked", 1)
		body := raw[:len(raw)-len(Ns)]
		segs := make([]int, len(r.vals))
		segsKnown := true
		var headV []rune
		total := 0
		if cs.Color {
			glyph := '|'
			if cs.Unicode {
				glyph = 0x2588
			}
			for i := len(r.vals) - 1; i >= 0; i-- {
				var ok bool
				body, ok = cutTrailingSGR(body) // reset
				if !ok {
					e.fail("layout", "stacked bargraph line %d: segment %d is not a coloured run: %s", ln, i, run.Q(raw))
					return
				}
				rs := []rune(body)
				n := 0
				for len(rs) > 0 && rs[len(rs)-1] == glyph {
					rs = rs[:len(rs)-1]
					n++
				}
				body = string(rs)
				body, ok = cutTrailingSGR(body) // colour
				if !ok {
					e.fail("layout", "stacked bargraph line %d: segment %d is not a coloured run: %s", ln, i, run.Q(raw))
					return
				}
				segs[i] = n
				total += n
			}
			headV = vis(body, true)
		} else {
			head, bar := afterLastSpace([]rune(body))
			headV = head
			total = len(bar)
			if k <= 16 {
				pos := 0
				for i := range r.vals {
					for pos < len(bar) && bar[pos] == rune(hexd[i%16]) {
						pos++
						segs[i]++
					}
				}
				if pos != len(bar) {
					e.fail("layout", "stacked bargraph line %d: bar %q is not a sequence of runs 0…,1…,2… for %d sub keys", ln, string(bar), k)
					return
				}
			} else {
				segsKnown = false
				for _, ch := range bar {
					if ch > 127 || !(ch >= '0' && ch <= '9' || ch >= 'A' && ch <= 'F') {
						e.fail("layout", "stacked bargraph line %d: bar %q contains a non-bar character", ln, string(bar))
						return
					}
				}
			}
		}
		if !hasPrefix(headV, Kv) || !allSpaces(headV[len(Kv):]) || len(headV) < len(Kv)+2 {
			e.fail("layout", "stacked bargraph line %d should start with key %s and two spaces: %s", ln, run.Q(r.name), run.Q(raw))
			return
		}
		if total > 50 {
			e.fail("overwidth", "stacked bargraph line %d (key %s): bar of %d cells exceeds the maximum width 50 (segments %v, running maximum of the row totals %d)", ln, run.Q(r.name), total, r.vals, runMax)
			return
		}
		c.Count("bars_checked", 1)
		rowNeg := false
		for _, v := range r.vals {
			if v < 0 {
				rowNeg = true
			}
		}
		if rowNeg {
			continue
		}
		totObs = append(totObs, barObs{r.sum, total, fmt.Sprintf("line %d", ln)})
		if segsKnown {
			for i, v := range r.vals {
				segObs = append(segObs, barObs{v, segs[i], fmt.Sprintf("line %d segment %d", ln, i)})
				if !negSeen && runMax > 0 && v >= 0 && v <= runMax {
					want := 50 * float64(v) / float64(runMax)
					if math.Abs(float64(segs[i])-want) > 1.0001 {
						e.fail("proportional", "stacked bargraph line %d segment %d: %d cells for value %d with running maximum %d (proportional length %.1f of 50 cells)", ln, i, segs[i], v, runMax, want)
						return
					}
				}
			}
		}
	}
	e.checkMonotone(segObs, 0, "stacked bar segments")
	// whole bars: every segment is rounded down separately, so allow one cell per segment
	e.checkMonotone(totObs, maxI(k, 1), "stacked bars (whole rows)")
}

// ---------------------------------------------------------------- table family

type tState struct {
	cols   []string // ordered, all
	rows   []string // ordered, all
	val    map[string]map[string]int64
	rowSum map[string]int64
	colTot map[string]int64
	sum    int64
	min    int64
	max    int64
}

func readTable(agg *aggregation.TableAggregator, rsort, csort string) *tState {
	st := &tState{val: map[string]map[string]int64{}, rowSum: map[string]int64{}, colTot: map[string]int64{}}
	cn := agg.Columns()
	cord := make([]nv, len(cn))
	for i, n := range cn {
		cord[i] = nv{n, agg.ColTotal(n)}
		st.colTot[n] = agg.ColTotal(n)
	}
	refOrder(cord, csort)
	for _, o := range cord {
		st.cols = append(st.cols, o.name)
	}
	rs := agg.Rows()
	rord := make([]nv, len(rs))
	first := true
	for i, r := range rs {
		rord[i] = nv{r.Name(), r.Sum()}
		st.rowSum[r.Name()] = r.Sum()
		m := map[string]int64{}
		for _, cname := range cn {
			v := r.Value(cname)
			m[cname] = v
			if first || v < st.min {
				st.min = v
			}
			if first || v > st.max {
				st.max = v
			}
			first = false
		}
		st.val[r.Name()] = m
	}
	refOrder(rord, rsort)
	for _, o := range rord {
		st.rows = append(st.rows, o.name)
	}
	st.sum = agg.Sum()
	return st
}

func feedTable(agg *aggregation.TableAggregator, st []Sample) {
	for _, s := range st {
		agg.Sample(s.A + nul + s.B + nul + itoa(s.Inc))
	}
}

func (e *env) planTable() ([]string, func()) {
	cs, c := e.cs, e.c
	var classes []string
	{
		agg := aggregation.NewTable(nul)
		for _, st := range cs.Steps {
			feedTable(agg, st)
			s := readTable(agg, cs.RSort, cs.CSort)
			switch cs.Kind {
			case "heat":
				if cs.Cols > 0 && len(s.cols) > 0 && len(vis(s.cols[0], cs.Color)) == 0 && !has(classes, fpHeatHang) {
					classes = append(classes, fpHeatHang)
				}
			case "spark":
				if cs.Cols == 0 && len(s.cols) > 0 && len(s.rows) > 0 && cs.Rows > 0 && !has(classes, fpSparkZero) {
					classes = append(classes, fpSparkZero)
				}
			}
		}
	}
	exec := func() {
		vt := multiterm.NewVirtualTerm()
		agg := aggregation.NewTable(nul)
		F := formatter(cs.Fmt)
		rs, csr := nvSorter(cs.RSort), nvSorter(cs.CSort)
		type renderer interface {
			WriteTable(*aggregation.TableAggregator, sorting.NameValueSorter, sorting.NameValueSorter)
			WriteFooter(int, string)
		}
		var w renderer
		switch cs.Kind {
		case "table":
			dt := termrenderers.NewDataTable(vt, cs.Cols, cs.Rows)
			dt.ShowRowTotals, dt.ShowColTotals = cs.RowTot, cs.ColTot
			if cs.Fmt != "default" {
				dt.SetFormatter(F)
			}
			w = dt
		case "heat":
			hm := termrenderers.NewHeatmap(vt, cs.Rows, cs.Cols)
			hm.FixedMin, hm.FixedMax = cs.FixMin != nil, cs.FixMax != nil
			if hm.FixedMin || hm.FixedMax {
				var mn, mx int64
				if cs.FixMin != nil {
					mn = *cs.FixMin
				}
				if cs.FixMax != nil {
					mx = *cs.FixMax
				}
				hm.UpdateMinMax(mn, mx)
			}
			hm.Scaler = scaler(cs.Scale)
			hm.Formatter = F
			w = hm
		case "spark":
			sp := termrenderers.NewSpark(vt, cs.Rows, cs.Cols)
			sp.Scaler = scaler(cs.Scale)
			sp.Formatter = F
			w = sp
		}
		for _, st := range cs.Steps {
			feedTable(agg, st)
			w.WriteTable(agg, rs, csr)
			w.WriteFooter(0, foot0)
			w.WriteFooter(1, foot1)
			c.Count("renders", 1)
		}
		if len(cs.Steps) == 0 {
			return
		}
		s := readTable(agg, cs.RSort, cs.CSort)
		switch cs.Kind {
		case "table":
			e.checkDataTable(vt, s, F)
		case "heat":
			e.checkHeat(vt, s)
		case "spark":
			e.checkSpark(vt, s, F)
		}
	}
	return classes, exec
}

func visLines(vt *multiterm.VirtualTerm, from, n int, colorOn bool) [][]rune {
	out := make([][]rune, n)
	for i := 0; i < n; i++ {
		out[i] = vis(vt.Get(from+i), colorOn)
	}
	return out
}

func (e *env) checkDataTable(vt *multiterm.VirtualTerm, s *tState, F termformat.Formatter) {
	cs, c := e.cs, e.c
	cols := s.cols
	if len(cols) > cs.Cols {
		cols = cols[:cs.Cols]
	}
	shown := minI(len(s.rows), cs.Rows)
	fm := func(v int64) cell { return exactS(F(v, s.min, s.max)) }
	var rows [][]cell
	head := []cell{exactS("")}
	for _, cn := range cols {
		head = append(head, exact(vis(cn, cs.Color)))
	}
	if cs.RowTot {
		head = append(head, exactS("Total"))
	} else {
		head = append(head, exactS(""))
	}
	rows = append(rows, head)
	for _, rn := range s.rows[:shown] {
		r := []cell{exact(vis(rn, cs.Color))}
		for _, cn := range cols {
			r = append(r, fm(s.val[rn][cn]))
		}
		if cs.RowTot {
			r = append(r, fm(s.rowSum[rn]))
		} else {
			r = append(r, exactS(""))
		}
		rows = append(rows, r)
	}
	if cs.ColTot {
		r := []cell{exactS("Total")}
		for _, cn := range cols {
			r = append(r, fm(s.colTot[cn]))
		}
		if cs.RowTot {
			r = append(r, fm(s.sum))
		} else {
			r = append(r, exactS(""))
		}
		rows = append(rows, r)
	}
	lines := visLines(vt, 0, len(rows), cs.Color)
	c.Count("numbers_checked", int64((len(rows)-1)*len(cols)))
	c.Count("table_rows_checked", int64(len(rows)))
	if !alignable(rows, lines) {
		e.fail("align", "table: no common column offsets exist under which every line shows its expected cells (%d of %d columns, %d of %d rows displayed; numbers under formatter %s)\n%s",
			len(cols), len(s.cols), shown, len(s.rows), cs.Fmt, describeTable(rows, lines))
		return
	}
	if got := vt.Get(len(rows)); got != foot0 {
		e.fail("extra-rows", "table: %d of %d rows displayed under the limit %d, line %d should be the footer but is %s", shown, len(s.rows), cs.Rows, len(rows), run.Q(got))
	}
}

func (e *env) checkSpark(vt *multiterm.VirtualTerm, s *tState, F termformat.Formatter) {
	cs, c := e.cs, e.c
	if len(s.cols) == 0 {
		return
	}
	cols := s.cols
	if len(cols) > cs.Cols {
		cols = cols[len(cols)-cs.Cols:]
	}
	if len(cols) == 0 {
		return // zero displayed columns: only "does not crash" is decided
	}
	shown := minI(len(s.rows), cs.Rows)
	uni := cs.Unicode
	class := func(r rune) bool { return sparkLevel(r, uni) >= 0 }
	fm := func(v int64) cell { return exactS(F(v, s.min, s.max)) }
	rows := [][]cell{{exactS(""), exactS("First"), {kind: cAny, text: vis(cols[0], cs.Color)}, exactS("Last")}}
	for _, rn := range s.rows[:shown] {
		rows = append(rows, []cell{exact(vis(rn, cs.Color)), fm(s.val[rn][cols[0]]), {kind: cClass, n: len(cols), class: class}, fm(s.val[rn][cols[len(cols)-1]])})
	}
	lines := visLines(vt, 0, len(rows), cs.Color)
	c.Count("numbers_checked", int64(2*shown))
	c.Count("table_rows_checked", int64(len(rows)))
	if !alignable(rows, lines) {
		e.fail("align", "sparkline: no common column offsets exist under which every line shows key, first value, one glyph per displayed column (%d), last value\n%s", len(cols), describeTable(rows, lines))
		return
	}
	// glyph levels: locate the sparkline of each row = the run of len(cols) glyphs
	// that ends right before the padded last value. The alignment above proved it
	// exists; recover it from the right.
	var obs []barObs
	levels := sparkLevels(uni)
	for ri, rn := range s.rows[:shown] {
		ln := lines[ri+1]
		last := []rune(F(s.val[rn][cols[len(cols)-1]], s.min, s.max))
		// strip trailing pad+sep, the last value, then pad+sep of the sparkline cell
		t := ln
		for len(t) > 0 && t[len(t)-1] == ' ' {
			t = t[:len(t)-1]
		}
		if !hasSuffix(t, last) {
			continue // value text with trailing spaces: ambiguous, abstain
		}
		t = t[:len(t)-len(last)]
		for len(t) > 0 && t[len(t)-1] == ' ' {
			t = t[:len(t)-1]
		}
		if len(t) < len(cols) {
			continue
		}
		g := t[len(t)-len(cols):]
		for j, r := range g {
			lv := sparkLevel(r, uni)
			if lv < 0 {
				obs = nil
				break
			}
			v := s.val[rn][cols[j]]
			obs = append(obs, barObs{v, lv, fmt.Sprintf("row %s column %s", run.Q(rn), run.Q(cols[j]))})
			if cs.Scale == "linear" && s.max > s.min {
				want := (float64(v) - float64(s.min)) / (float64(s.max) - float64(s.min)) * float64(levels-1)
				if math.Abs(float64(lv)-want) > 1.0001 {
					e.fail("proportional", "sparkline row %s column %s: level %d of %d for value %d in [%d,%d] (proportional level %.2f)", run.Q(rn), run.Q(cols[j]), lv, levels-1, v, s.min, s.max, want)
					return
				}
			}
		}
		c.Count("cells_checked", int64(len(g)))
	}
	e.checkMonotone(obs, 0, "sparkline levels")
	next := len(rows)
	if len(s.rows) > shown {
		want := fmt.Sprintf("(%d more)", len(s.rows)-shown)
		if got := visStr(vt.Get(next), cs.Color); got != want {
			e.fail("note", "sparkline: %d of %d rows displayed, line %d should read %q but is %s", shown, len(s.rows), next, want, run.Q(vt.Get(next)))
			return
		}
		c.Count("notes_checked", 1)
		next++
	}
	if got := vt.Get(next); got != foot0 {
		e.fail("extra-rows", "sparkline: %d of %d rows displayed under the limit %d, line %d should be the footer but is %s", shown, len(s.rows), cs.Rows, next, run.Q(got))
	}
}

func parseMoreSuffix(v []rune) (n int, ok bool, rest []rune) {
	// … " (<digits> more)"
	suf := []rune(" more)")
	if !hasSuffix(v, suf) {
		return 0, false, v
	}
	i := len(v) - len(suf)
	j := i
	for j > 0 && v[j-1] >= '0' && v[j-1] <= '9' {
		j--
	}
	if j == i || j < 2 || v[j-1] != '(' || v[j-2] != ' ' {
		return 0, false, v
	}
	n, err := strconv.Atoi(string(v[j:i]))
	if err != nil {
		return 0, false, v
	}
	return n, true, v[:j-2]
}

func (e *env) checkHeat(vt *multiterm.VirtualTerm, s *tState) {
	cs, c := e.cs, e.c
	ncols := minI(len(s.cols), cs.Cols)
	shown := minI(len(s.rows), cs.Rows)
	cols := s.cols[:ncols]
	// header note
	hv := vis(vt.Get(1), cs.Color)
	n, ok, _ := parseMoreSuffix(hv)
	if len(s.cols) > ncols {
		if !ok || n != len(s.cols)-ncols {
			e.fail("note", "heatmap header: %d of %d columns displayed, the header should end with \" (%d more)\": %s", ncols, len(s.cols), len(s.cols)-ncols, run.Q(vt.Get(1)))
			return
		}
		c.Count("notes_checked", 1)
	} else if ok {
		e.fail("note", "heatmap header: all %d columns displayed but the header says (%d more): %s", len(s.cols), n, run.Q(vt.Get(1)))
		return
	}
	// effective scale range
	mn, mx := s.min, s.max
	if cs.FixMin != nil {
		mn = *cs.FixMin
	}
	if cs.FixMax != nil {
		mx = *cs.FixMax
	}
	var obs []barObs
	for ri, rn := range s.rows[:shown] {
		raw := vt.Get(2 + ri)
		V := vis(raw, cs.Color)
		Kv := vis(rn, cs.Color)
		if !hasPrefix(V, Kv) {
			e.fail("layout", "heatmap line %d should start with row key %s: %s", 2+ri, run.Q(rn), run.Q(raw))
			return
		}
		rest := V[len(Kv):]
		cellsR := skipSpaces(rest)
		if len(cellsR) == len(rest) {
			e.fail("layout", "heatmap line %d: no space between row key %s and the cells: %s", 2+ri, run.Q(rn), run.Q(raw))
			return
		}
		if len(cellsR) != ncols {
			e.fail("cells", "heatmap row %s: %d cells drawn for %d displayed columns (of %d, limit %d): %s", run.Q(rn), len(cellsR), ncols, len(s.cols), cs.Cols, run.Q(raw))
			return
		}
		for j, r := range cellsR {
			lv := heatLevel(r, cs.Color, cs.Unicode)
			if lv == -1 {
				e.fail("cells", "heatmap row %s: cell %d is %q, not a heat glyph: %s", run.Q(rn), j, string(r), run.Q(raw))
				return
			}
			if lv >= 0 {
				v := s.val[rn][cols[j]]
				obs = append(obs, barObs{v, lv, fmt.Sprintf("row %s column %s", run.Q(rn), run.Q(cols[j]))})
				// a range narrower than the spacing of float64 at its magnitude (two adjacent counts near 2^57) has no
				// resolution in the scaled magnitude, which is a float: only monotonicity (below) is asked there
				if cs.Scale == "linear" && mx > mn && float64(mx) > float64(mn) {
					u := 0.0
					switch {
					case v <= mn:
						u = 0
					case v >= mx:
						u = 1
					default:
						u = (float64(v) - float64(mn)) / (float64(mx) - float64(mn))
					}
					if math.Abs(float64(lv)-9*u) > 1.0001 {
						e.fail("proportional", "heatmap row %s column %s: level %d of 9 for value %d in [%d,%d] (proportional level %.2f)", run.Q(rn), run.Q(cols[j]), lv, v, mn, mx, 9*u)
						return
					}
				}
			}
		}
		c.Count("cells_checked", int64(ncols))
	}
	e.checkMonotone(obs, 0, "heatmap levels")
	next := 2 + shown
	if len(s.rows) > shown {
		want := fmt.Sprintf("(%d more)", len(s.rows)-shown)
		if got := visStr(vt.Get(next), cs.Color); got != want {
			e.fail("note", "heatmap: %d of %d rows displayed, line %d should read %q but is %s", shown, len(s.rows), next, want, run.Q(vt.Get(next)))
			return
		}
		c.Count("notes_checked", 1)
		next++
	}
	if got := vt.Get(next); got != foot0 {
		e.fail("extra-rows", "heatmap: %d of %d rows displayed under the limit %d, line %d should be the footer but is %s", shown, len(s.rows), cs.Rows, next, run.Q(got))
	}
}

// ---------------------------------------------------------------- reduce-style table (TableWriter)

func (e *env) execRTable() {
	cs, c := e.cs, e.c
	vt := multiterm.NewVirtualTerm()
	tw := termrenderers.NewTable(vt, cs.Cols, cs.Rows)
	head := make([]string, len(cs.THead))
	for i, h := range cs.THead {
		head[i] = color.Wrap(color.Underline+color.BrightBlue, h)
	}
	tw.WriteRow(0, head...)
	for _, st := range cs.TSteps {
		for i, row := range st {
			buf := make([]string, len(row))
			for j, cl := range row {
				if j == 0 {
					buf[j] = color.Wrap(color.BrightWhite, cl)
				} else {
					buf[j] = cl
				}
			}
			tw.WriteRow(i+1, buf...)
		}
		tw.WriteFooter(0, foot0)
		tw.WriteFooter(1, foot1)
		c.Count("renders", 1)
	}
	if len(cs.TSteps) == 0 {
		return
	}
	last := cs.TSteps[len(cs.TSteps)-1]
	all := append([][]string{cs.THead}, last...)
	if len(all) > cs.Rows {
		all = all[:cs.Rows]
	}
	var rows [][]cell
	for _, r := range all {
		var cl []cell
		for j, t := range r {
			if j >= cs.Cols {
				break
			}
			cl = append(cl, exact(vis(t, cs.Color)))
		}
		rows = append(rows, cl)
	}
	lines := visLines(vt, 0, len(rows), cs.Color)
	c.Count("table_rows_checked", int64(len(rows)))
	if !alignable(rows, lines) {
		e.fail("align", "table writer (maxCols %d, maxRows %d): no common column offsets exist under which every line shows its expected cells\n%s", cs.Cols, cs.Rows, describeTable(rows, lines))
		return
	}
	if got := vt.Get(len(rows)); got != foot0 {
		e.fail("extra-rows", "table writer: %d rows fit (maxRows %d), line %d should be the footer but is %s", len(rows), cs.Rows, len(rows), run.Q(got))
	}
}
