// Package p14 decides C14: renderers never crash and draw quantities
// proportionally within bounds (pkg/multiterm/termrenderers, termscaler,
// termunicode, pkg/color StrLen).
//
// The real renderers are driven, the way the commands in /repo/cmd drive
// them, with aggregator states reached through generated sample histories;
// the final VirtualTerm screen is parsed with the harness' own visible-text
// logic and judged structurally against the aggregated numbers. The scaler
// laws are checked directly on termscaler over int64 triples, and the CLI is
// run with --snapshot to confirm that harness-level crashes are program-level.
package p14

import (
	"encoding/json"
	"fmt"
	"os"
	"runtime"
	"strings"
	"time"

	"verifharness/internal/reg"
	"verifharness/internal/run"
)

func init() { reg.Register("C14", Run) }

// Sample is one aggregator sample: histo (A=key), bars (A=key, B=sub key),
// table family (A=column key, B=row key).
type Sample struct {
	A   string `json:"a"`
	B   string `json:"b,omitempty"`
	Inc int64  `json:"i"`
}

// Case is one C14 execution.
type Case struct {
	Kind    string `json:"kind"` // histo | bars | stack | table | heat | spark | rtable | scale | cli
	Color   bool   `json:"color"`
	Unicode bool   `json:"unicode"`
	Scale   string `json:"scale,omitempty"` // linear | log2 | log10
	Fmt     string `json:"fmt,omitempty"`   // pass | default | expr
	Rows    int    `json:"rows"`            // row limit (histo: capacity; rtable: maxRows)
	Cols    int    `json:"cols"`            // column limit
	RSort   string `json:"rsort,omitempty"` // name | value
	CSort   string `json:"csort,omitempty"`

	Steps [][]Sample `json:"steps,omitempty"` // samples added before each render

	Pct    bool   `json:"pct,omitempty"`    // histo
	Bar    bool   `json:"bar,omitempty"`    // histo
	Over   bool   `json:"over,omitempty"`   // histo: the driver offers every row, also those past the capacity
	RowTot bool   `json:"rowtot,omitempty"` // table
	ColTot bool   `json:"coltot,omitempty"` // table
	FixMin *int64 `json:"fixmin,omitempty"` // heat
	FixMax *int64 `json:"fixmax,omitempty"` // heat

	// rtable (reduce-style use of TableWriter): header + per render the rows of cells
	THead  []string     `json:"thead,omitempty"`
	TSteps [][][]string `json:"tsteps,omitempty"`

	// scale: laws on termscaler for one (min,max) and a list of values
	Min  int64   `json:"min,omitempty"`
	Max  int64   `json:"max,omitempty"`
	Vals []int64 `json:"vals,omitempty"`

	// fmt: laws on termformat for one expression and a sequence of calls
	Expr  string    `json:"expr,omitempty"`
	Calls []FmtCall `json:"calls,omitempty"`

	// cli
	Args  []string `json:"args,omitempty"`
	Input string   `json:"input,omitempty"`
	Class []string `json:"class,omitempty"` // known classes this generated cli case falls into

	Pin string `json:"pin,omitempty"` // fingerprint of the known class this pinned witness belongs to
}

// Known classes (DESIGN §6 #19–#22 and what the monitor found in addition).
const (
	fpStackZero   = "bars-stacked:max-zero-divide"
	fpStackNeg    = "bars-stacked:negative-segment-overwidth"
	fpStackOvf    = "bars-stacked:width-product-overflow"
	fpHeatHang    = "heatmap:header-zero-width-first-column-hang"
	fpSparkZero   = "spark:zero-displayed-columns"
	fpHistoCap    = "histo:line-eq-capacity"
	fpHistoStale  = "histo:nonpositive-row-skipped-on-full-refresh"
	fpScaleMaxInt = "scale:log10-min-eq-max-eq-maxint64"
	fpBarsStale   = "bargraph:redraw-raises-max-without-redrawing"
)

const foot0, foot1 = "FOOT0 footer", "FOOT1 footer"

type env struct {
	c  *run.Ctx
	cs *Case
	// failures of the running case
	fails []failure
}

type failure struct {
	kind string // panic | overwidth | monotone | proportional | cells | align | number | note | layout | extra-rows | range
	msg  string
}

func (e *env) fail(kind, format string, a ...any) {
	if len(e.fails) < 4 {
		e.fails = append(e.fails, failure{kind, fmt.Sprintf(format, a...)})
	}
}

func caseHash(cs *Case) string {
	b, _ := json.Marshal(cs)
	return run.Hash64(string(b))
}

// memory guard: one renderer defect (stacked bar with a wrapped product)
// writes an unbounded number of runes. A shard must die cleanly (the
// orchestrator then re-runs the journalled case in isolation and reports the
// crash) instead of taking the machine down.
func memGuard() {
	go func() {
		var ms runtime.MemStats
		for {
			time.Sleep(100 * time.Millisecond)
			runtime.ReadMemStats(&ms)
			if ms.HeapAlloc > 3<<29 { // 1.5 GiB
				fmt.Fprintf(os.Stderr, "fatal error: p14 memory guard: heap %d MiB while running a renderer case (unbounded output)\n", ms.HeapAlloc>>20)
				os.Exit(98)
			}
		}
	}()
}

func Run(c *run.Ctx) {
	memGuard()
	if c.Replay != nil {
		var cs Case
		if err := json.Unmarshal(c.Replay, &cs); err != nil {
			c.Inconclusive("bad replay: " + err.Error())
			return
		}
		limit := 4 * time.Minute
		if cs.Kind == "cli" {
			limit = 15 * time.Minute
		}
		c.Begin(&cs, limit)
		runCase(c, &cs)
		c.End()
		return
	}
	pins(c)
	scalerLaws(c)
	barUnitLaws(c)
	formatterLaws(c)
	renderCases(c)
	cliCases(c)
}

// runCase executes one case and reports its failures. A failure inside a
// known class carries the fingerprint of that class (and only the failure
// kind that defines the class); everything else gets a hash fingerprint.
func runCase(c *run.Ctx, cs *Case) {
	e := &env{c: c, cs: cs}
	var classes []string
	switch cs.Kind {
	case "scale":
		classes = e.runScale()
	case "cli":
		classes = e.runCLI()
	case "fmt":
		e.runFmt()
	case "barunit":
		e.runBarUnit()
	default:
		shadowFails = nil
		classes = e.runRender()
		for _, m := range shadowFails {
			e.fail("number", "%s", m)
		}
		shadowFails = nil
	}
	for _, f := range e.fails {
		fp := ""
		for _, cl := range classes {
			if classAccepts(cl, f) {
				fp = cl
				break
			}
		}
		if fp == "" {
			fp = f.kind + ":" + cs.Kind + ":" + caseHash(cs)
		}
		c.Violation(fp, fmt.Sprintf("[%s %s] %s", cs.Kind, describe(cs), f.msg), cs)
	}
}

// classAccepts: which failure kinds are the signature of a known class.
func classAccepts(class string, f failure) bool {
	switch class {
	case fpStackZero:
		return f.kind == "panic" && strings.Contains(f.msg, "divide by zero")
	case fpStackNeg:
		return f.kind == "overwidth" || f.kind == "monotone"
	case fpStackOvf:
		return f.kind == "monotone" || f.kind == "proportional" || f.kind == "overwidth"
	case fpBarsStale:
		return f.kind == "monotone" || f.kind == "proportional"
	case fpHeatHang:
		return f.kind == "hang"
	case fpSparkZero:
		return f.kind == "panic" && strings.Contains(f.msg, "index out of range")
	case fpHistoCap:
		return f.kind == "panic" && strings.Contains(f.msg, "index out of range")
	case fpHistoStale:
		return f.kind == "number" || f.kind == "layout"
	case fpScaleMaxInt:
		return f.kind == "range"
	}
	return false
}

func describe(cs *Case) string {
	n := 0
	for _, s := range cs.Steps {
		n += len(s)
	}
	s := fmt.Sprintf("colour=%v unicode=%v", cs.Color, cs.Unicode)
	if cs.Scale != "" {
		s += " scale=" + cs.Scale
	}
	if cs.Fmt != "" {
		s += " fmt=" + cs.Fmt
	}
	switch cs.Kind {
	case "scale":
		return fmt.Sprintf("scaler=%s min=%d max=%d", cs.Scale, cs.Min, cs.Max)
	case "cli":
		return "rare " + strings.Join(cs.Args, " ")
	case "fmt":
		return fmt.Sprintf("format=%q calls=%d", cs.Expr, len(cs.Calls))
	case "rtable":
		return fmt.Sprintf("%s maxCols=%d maxRows=%d renders=%d", s, cs.Cols, cs.Rows, len(cs.TSteps))
	}
	return fmt.Sprintf("%s rows=%d cols=%d sort=%s/%s renders=%d samples=%d", s, cs.Rows, cs.Cols, cs.RSort, cs.CSort, len(cs.Steps), n)
}
