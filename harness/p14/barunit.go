package p14

import (
	"strings"
	"time"
	"unicode/utf8"

	"rare/pkg/color"
	"rare/pkg/multiterm/termunicode"

	"verifharness/internal/run"
)

// "bars never exceed their maximum width and grow with the value", asked of the bar writers themselves with any
// arguments a renderer could hand them - also a segment larger than the scale it is drawn against (a renderer whose
// scale is behind its data): no panic, never more than maxLen cells per segment, and when the segments are
// non-negative and sum to at most maxVal never more than maxLen cells in all.
func (e *env) runBarUnit() {
	cs, c := e.cs, e.c
	prevC, prevU := color.Enabled, termunicode.UnicodeEnabled
	color.Enabled, termunicode.UnicodeEnabled = cs.Color, cs.Unicode
	defer func() { color.Enabled, termunicode.UnicodeEnabled = prevC, prevU }()
	maxVal, maxLen, vals := cs.Max, int64(cs.Cols), cs.Vals
	var sb strings.Builder
	p, val, stack := run.Guard(func() { termunicode.BarWriteStacked(&sb, maxVal, maxLen, vals...) })
	if p {
		e.fail("panic", "BarWriteStacked(maxVal %d, maxLen %d, vals %v) panicked: %v\n%s", maxVal, maxLen, vals, val, stack)
		return
	}
	c.Count("bar_writer_calls", 1)
	cells := utf8.RuneCountInString(stripSGR(sb.String()))
	var sum int64
	fits := maxVal > 0
	for _, v := range vals {
		if v < 0 || v > maxVal-sum {
			fits = false
		}
		if v > 0 && fits {
			sum += v
		}
	}
	if maxLen < 0 {
		maxLen = 0
	}
	if limit := maxLen * int64(len(vals)); int64(cells) > limit {
		e.fail("bounds", "BarWriteStacked(maxVal %d, maxLen %d, vals %v) wrote %d cells: more than maxLen per segment", maxVal, maxLen, vals, cells)
		return
	}
	if fits && int64(cells) > maxLen {
		e.fail("bounds", "BarWriteStacked(maxVal %d, maxLen %d, vals %v) wrote %d cells although the segments sum to %d <= maxVal", maxVal, maxLen, vals, cells, sum)
		return
	}
	// one segment alone: the cells grow with the value
	if len(vals) >= 2 && vals[0] >= 0 && vals[1] >= vals[0] {
		var a, b strings.Builder
		pa, _, _ := run.Guard(func() { termunicode.BarWriteStacked(&a, maxVal, maxLen, vals[0]) })
		pb, _, _ := run.Guard(func() { termunicode.BarWriteStacked(&b, maxVal, maxLen, vals[1]) })
		if !pa && !pb {
			ca, cb := utf8.RuneCountInString(stripSGR(a.String())), utf8.RuneCountInString(stripSGR(b.String()))
			if ca > cb {
				e.fail("monotone", "BarWriteStacked(maxVal %d, maxLen %d): value %d draws %d cells, the larger value %d draws %d", maxVal, maxLen, vals[0], ca, vals[1], cb)
			}
		}
	}
}

func stripSGR(s string) string {
	var sb strings.Builder
	for i := 0; i < len(s); i++ {
		if s[i] == 0x1b && i+1 < len(s) && s[i+1] == '[' {
			j := i + 2
			for j < len(s) && s[j] != 'm' {
				j++
			}
			i = j
			continue
		}
		sb.WriteByte(s[i])
	}
	return sb.String()
}

func barUnitLaws(c *run.Ctx) {
	N := c.N(6000, 120000)
	for i := 0; i < N; i++ {
		if !c.Mine(i) {
			continue
		}
		r := c.Rand("barunit", i)
		cs := &Case{Kind: "barunit", Color: r.Bool(), Unicode: r.Bool(), Cols: []int{0, 1, 2, 10, 50, 200}[r.Intn(6)]}
		cs.Max = pickI64(r)
		if r.Intn(4) != 0 && cs.Max < 0 {
			cs.Max = -cs.Max
		}
		n := r.Range(1, 5)
		for k := 0; k < n; k++ {
			switch r.Intn(5) {
			case 0:
				cs.Vals = append(cs.Vals, pickI64(r))
			case 1: // beyond the scale
				cs.Vals = append(cs.Vals, addSat(cs.Max, int64(r.Range(1, 1000))))
			default: // inside the scale
				if cs.Max > 0 {
					cs.Vals = append(cs.Vals, int64(r.U64()%uint64(cs.Max)+1)/int64(n))
				} else {
					cs.Vals = append(cs.Vals, int64(r.Range(0, 9)))
				}
			}
		}
		c.Begin(cs, 2*time.Minute)
		runCase(c, cs)
		c.End()
		if c.Violations() >= 6 {
			return
		}
	}
}
