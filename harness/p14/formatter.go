package p14

import (
	"fmt"
	"strings"
	"time"

	"rare/pkg/multiterm/termformat"

	"verifharness/internal/run"
)

// Formatter laws ("displayed numbers equal the aggregated numbers under the chosen
// formatter" needs the formatter itself to be a function of the number it is
// given). A number formatter is called as F(value, min, max) once per displayed
// number, hundreds of times per render with slowly changing bounds; the renderers'
// oracles compute their expected text through F, so a formatter that carries state
// from one call to the next would go unnoticed there. Checked here, directly on
// pkg/multiterm/termformat (an anchor of C14):
//
//   purity   F(v,min,max) of a long-lived formatter == the same call on a freshly
//            built formatter of the same expression, for every call of a sequence in
//            which the bounds move together, one at a time, or not at all;
//   meaning  for expressions made only of {0}/{value}, {1}/{min}, {2}/{max} and text
//            the result is the decimal text of those numbers (docs/usage/aggregators.md,
//            "Formatting");
//   short    the documented short-hand `name` == `{name {0}}`;
//   builtin  Passthru prints the decimal number; Default only adds thousands separators.
//
// The same purity monitor rides along inside every renderer case (shadow formatter in
// drive.go: formatter()), i.e. under the renderers' real call sequences.

type fmtExpr struct {
	expr string
	ref  func(v, lo, hi int64) string // nil: purity only
}

func d(v int64) string { return fmt.Sprintf("%d", v) }

var fmtExprs = []fmtExpr{
	{"{0}", func(v, lo, hi int64) string { return d(v) }},
	{"<{0}|{1}|{2}>", func(v, lo, hi int64) string { return "<" + d(v) + "|" + d(lo) + "|" + d(hi) + ">" }},
	{"{value}/{min}..{max}", func(v, lo, hi int64) string { return d(v) + "/" + d(lo) + ".." + d(hi) }},
	{"{val} of {max}", func(v, lo, hi int64) string { return d(v) + " of " + d(hi) }},
	{"{2}-{1}", func(v, lo, hi int64) string { return d(hi) + "-" + d(lo) }},
	{"[{min}] {0}", func(v, lo, hi int64) string { return "[" + d(lo) + "] " + d(v) }},
	{"{max}", func(v, lo, hi int64) string { return d(hi) }},
	{"{1}", func(v, lo, hi int64) string { return d(lo) }},
	{"{percent {0} 2 {1} {2}}", nil},
	{"{percent {0} 1 {min} {max}}", nil},
	{"{bytesize {value}} / {bytesize {max}}", nil},
	{"{subi {2} {0}} left", nil},
	{"{if {eq {0} {2}} top {0}}", nil},
	{"{downscale {0}} ({downscale {1}}-{downscale {2}})", nil},
}

var fmtShort = []string{"bytesize", "bytesizesi", "downscale", "hi"}

// FmtCall is one formatter call of a "fmt" case.
type FmtCall [3]int64

func genFmtCase(r *run.Rand) *Case {
	cs := &Case{Kind: "fmt"}
	if r.Intn(5) == 0 {
		cs.Expr = fmtShort[r.Intn(len(fmtShort))]
	} else {
		cs.Expr = fmtExprs[r.Intn(len(fmtExprs))].expr
	}
	pick := func() int64 {
		switch r.Intn(6) {
		case 0:
			return 0
		case 1:
			return int64(r.Intn(10))
		case 2:
			return -int64(r.Intn(1000))
		case 3:
			return int64(r.Intn(1 << 20))
		case 4:
			return int64(r.U64() >> uint(4+r.Intn(40)))
		}
		return int64(r.Intn(100000))
	}
	lo, hi := int64(0), pick()
	n := r.Range(2, 40)
	for i := 0; i < n; i++ {
		switch r.Intn(6) {
		case 0: // only the upper bound moves (what a growing histogram / table does)
			hi = pick()
		case 1: // only the lower bound moves
			lo = pick()
		case 2: // both
			lo, hi = pick(), pick()
		}
		// 3..5: same bounds as the previous call (the common case within one render)
		cs.Calls = append(cs.Calls, FmtCall{pick(), lo, hi})
	}
	return cs
}

func (e *env) runFmt() {
	cs, c := e.cs, e.c
	build := func() (termformat.Formatter, bool) {
		var F termformat.Formatter
		var err error
		p, val, _ := run.Guard(func() { F, err = termformat.FromExpression(cs.Expr) })
		if p {
			e.fail("panic", "termformat.FromExpression(%s) panicked: %v", run.Q(cs.Expr), val)
			return nil, false
		}
		if err != nil || F == nil {
			e.fail("number", "termformat.FromExpression(%s) does not compile (%v): a documented --format expression", run.Q(cs.Expr), err)
			return nil, false
		}
		return F, true
	}
	F, ok := build()
	if !ok {
		return
	}
	var ref func(v, lo, hi int64) string
	for _, x := range fmtExprs {
		if x.expr == cs.Expr {
			ref = x.ref
		}
	}
	var expanded termformat.Formatter
	for _, s := range fmtShort {
		if s == cs.Expr {
			p, _, _ := run.Guard(func() { expanded, _ = termformat.FromExpression("{" + s + " {0}}") })
			if p {
				expanded = nil
			}
		}
	}
	p, val, stack := run.Guard(func() {
		for i, cl := range cs.Calls {
			v, lo, hi := cl[0], cl[1], cl[2]
			got := F(v, lo, hi)
			c.Count("formatter_calls", 1)
			fresh, ok := build()
			if !ok {
				return
			}
			if want := fresh(v, lo, hi); got != want {
				e.fail("number", "--format %s: call #%d F(value=%d, min=%d, max=%d) = %s on a formatter that was used before, but %s on a freshly built one (previous call: %v): the formatted number depends on earlier calls",
					run.Q(cs.Expr), i, v, lo, hi, run.Q(got), run.Q(want), prevCall(cs.Calls, i))
				return
			}
			if ref != nil {
				c.Count("formatter_meaning_checked", 1)
				if want := ref(v, lo, hi); got != want {
					e.fail("number", "--format %s: F(value=%d, min=%d, max=%d) = %s, documented meaning of {0}/{1}/{2} gives %s", run.Q(cs.Expr), v, lo, hi, run.Q(got), run.Q(want))
					return
				}
			}
			if expanded != nil {
				c.Count("formatter_shorthand_checked", 1)
				if want := expanded(v, lo, hi); got != want {
					e.fail("number", "--format %s (short-hand) gives %s for %d, {%s {0}} gives %s", cs.Expr, run.Q(got), v, cs.Expr, run.Q(want))
					return
				}
			}
			if pt := termformat.Passthru(v, lo, hi); pt != d(v) {
				e.fail("number", "termformat.Passthru(%d) = %s", v, run.Q(pt))
				return
			}
			if df := strings.ReplaceAll(termformat.Default(v, lo, hi), ",", ""); df != d(v) {
				e.fail("number", "termformat.Default(%d) = %s: not the number with thousands separators", v, run.Q(termformat.Default(v, lo, hi)))
				return
			}
		}
	})
	if p {
		e.fail("panic", "formatter %s panicked: %v\n%s", run.Q(cs.Expr), val, stack)
	}
}

func prevCall(calls []FmtCall, i int) string {
	if i == 0 {
		return "none"
	}
	return fmt.Sprintf("F(%d, %d, %d)", calls[i-1][0], calls[i-1][1], calls[i-1][2])
}

func formatterLaws(c *run.Ctx) {
	N := c.N(3000, 60000)
	for i := 0; i < N; i++ {
		if !c.Mine(i) {
			continue
		}
		r := c.Rand("fmt", i)
		cs := genFmtCase(r)
		c.Begin(cs, 2*time.Minute)
		c.Nontrivial("fmt", caseHash(cs))
		c.Count("cases_fmt", 1)
		runCase(c, cs)
		c.End()
		if c.Violations() >= 6 {
			return
		}
	}
}

// ---------------------------------------------------------------- shadow formatter inside renderer cases

// shadowFails collects purity violations seen by the shadow formatter while a
// renderer case runs (cases run one at a time in a shard).
var shadowFails []string

const shadowExpr = "{0}|{1}|{2}"

var shadowLong termformat.Formatter

// withShadow wraps a formatter: every call the renderer makes is replayed on a
// long-lived expression formatter that shows all three arguments and on the plain
// decimal rendering of the same arguments. What the renderer passes as min/max is
// not judged; that the formatter reproduces what it was given is.
func withShadow(inner termformat.Formatter) termformat.Formatter {
	if shadowLong == nil {
		shadowLong = termformat.MustFromExpression(shadowExpr)
	}
	return func(v, lo, hi int64) string {
		got := shadowLong(v, lo, hi)
		if want := d(v) + "|" + d(lo) + "|" + d(hi); got != want && len(shadowFails) < 2 {
			shadowFails = append(shadowFails, fmt.Sprintf("--format %s called by the renderer as F(value=%d, min=%d, max=%d) gave %s, expected %s (formatter state carried over from an earlier call)",
				run.Q(shadowExpr), v, lo, hi, run.Q(got), run.Q(want)))
		}
		return inner(v, lo, hi)
	}
}
