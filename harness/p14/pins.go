package p14

import (
	"math"
	"time"

	"verifharness/internal/run"
)

func i64p(v int64) *int64 { return &v }

// pinned witnesses: always executed. While the defect exists and is listed
// as known they print KNOWN-FINDING; once repaired they are regression cases.
func pinnedCases() []*Case {
	long := "a-very-long-key-of-more-than-16-characters"
	return []*Case{
		// DESIGN §6 #19: stacked bars, running maximum 0 → integer divide by zero
		{Kind: "stack", Fmt: "default", RSort: "name", Steps: [][]Sample{{{A: "a", B: "x", Inc: 0}, {A: "b", B: "y", Inc: 0}}}, Pin: fpStackZero},
		{Kind: "cli", Args: []string{"bars", "-s", "--snapshot", "-m", cliMatch, "-e", "{$ {1} {2} {3}}"}, Input: "a x 0\nb y 0\n", Pin: fpStackZero},
		// stacked bars with a negative segment: 33+33 cells of 50
		{Kind: "stack", Fmt: "default", RSort: "name", Steps: [][]Sample{{{A: "k", B: "a", Inc: 10}, {A: "k", B: "b", Inc: -5}, {A: "k", B: "c", Inc: 10}}}, Pin: fpStackNeg},
		// stacked bars: value*50 wraps, the largest row has no bar at all
		{Kind: "stack", Fmt: "default", RSort: "name", Steps: [][]Sample{{{A: "big", B: "a", Inc: 200000000000000000}, {A: "half", B: "a", Inc: 100000000000000000}}}, Pin: fpStackOvf},
		// DESIGN §6 #20: heatmap header, first displayed column key of visible width 0 → endless loop
		{Kind: "heat", Scale: "linear", Fmt: "default", Rows: 5, Cols: 10, RSort: "name", CSort: "name", Steps: [][]Sample{{{A: "", B: "x", Inc: 1}, {A: "b", B: "y", Inc: 2}}}, Pin: fpHeatHang},
		{Kind: "cli", Args: []string{"heatmap", "--snapshot", "-m", cliMatch, "-e", "{$ {1} {2} {3}}"}, Input: " x 1\nb y 2\n", Pin: fpHeatHang},
		// DESIGN §6 #21: sparkline with zero displayed columns
		{Kind: "spark", Scale: "linear", Fmt: "default", Rows: 5, Cols: 0, RSort: "name", CSort: "name", Steps: [][]Sample{{{A: "a", B: "x", Inc: 1}, {A: "b", B: "y", Inc: 2}}}, Pin: fpSparkZero},
		{Kind: "cli", Args: []string{"spark", "--cols", "0", "--notruncate", "--snapshot", "-m", cliMatch, "-e", "{$ {1} {2} {3}}"}, Input: "a x 1\nb y 2\n", Pin: fpSparkZero},
		// DESIGN §6 #22: histogram offered one row more than it has lines
		{Kind: "histo", Scale: "linear", Fmt: "default", Rows: 2, RSort: "value", Bar: true, Over: true, Steps: [][]Sample{{{A: "a", Inc: 3}, {A: "b", Inc: 2}, {A: "c", Inc: 1}}}, Pin: fpHistoCap},
		// histogram: a row with value <= 0 whose key widens the key column is never drawn
		{Kind: "histo", Scale: "linear", Fmt: "default", Rows: 5, RSort: "name", Bar: true, Pct: true, Steps: [][]Sample{{{A: long, Inc: 0}, {A: "b", Inc: 2}}}, Pin: fpHistoStale},
		// scaler: min = max = MaxInt64, log10
		{Kind: "scale", Scale: "log10", Min: math.MaxInt64, Max: math.MaxInt64, Vals: []int64{math.MaxInt64 - 1, math.MaxInt64}, Pin: fpScaleMaxInt},
		// bar graph re-rendered after the counters grew (reported by the C20 builder from a pty run as well)
		{Kind: "bars", Scale: "linear", Fmt: "default", RSort: "name", Steps: [][]Sample{
			{{A: "dr", Inc: 50}, {A: "jj", Inc: 40}, {A: "vq", Inc: 30}},
			{{A: "dr", Inc: 49}, {A: "jj", Inc: 73}, {A: "vq", Inc: 105}}}, Pin: fpBarsStale},
	}
}

func pins(c *run.Ctx) {
	for i, cs := range pinnedCases() {
		if !c.Mine(i) {
			continue
		}
		c.Begin(cs, 15*time.Minute)
		c.Count("pinned_cases", 1)
		runCase(c, cs)
		c.End()
	}
}
