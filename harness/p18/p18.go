// Package p18 decides C18: the time helpers of rare's expression language
// (timeformat, timeattr, buckettime, time, duration, durationformat) agree with
// the calendar in every supported zone and round-trip.
//
// The real stdlib functions are compiled and evaluated through the public
// KeyBuilder; the oracle is ref.go (calendar fields computed from the unix
// second and the zone offset, strings composed field by field).
package p18

import (
	"encoding/json"
	"fmt"
	"sort"
	"strconv"
	"strings"
	"time"

	"rare/pkg/expressions"
	"rare/pkg/expressions/stdlib"

	"verifharness/internal/reg"
	"verifharness/internal/run"
)

func init() { reg.Register("C18", Run) }

const maxU = int64(4102444800) // 2100-01-01T00:00:00Z

// fpQuarter is the fingerprint of the defect confirmed at design time
// (DESIGN.md §6 #28): quarter = month/3+1, so the last month of every quarter
// is reported as the next quarter (December as 5).
const fpQuarter = "quarter:last-month-of-quarter-reported-as-next"

// Case is one evaluation (or, with Op "group", all evaluations of a list of
// instants in one zone). It is what is journalled and what a replay runs.
type Case struct {
	Op     string  `json:"op"`
	Zone   string  `json:"zone"`             // tz argument; "" = argument omitted (documented default: utc)
	U      int64   `json:"u"`                // unix second
	Arg    string  `json:"arg,omitempty"`    // named format | attribute | bucket
	Layout string  `json:"layout,omitempty"` // parse format given to time / buckettime
	Form   int     `json:"form,omitempty"`   // buckettime: shape of the input string
	Nanos  int64   `json:"nanos,omitempty"`  // buckettime form 3: sub-second part of the input
	Static bool    `json:"static,omitempty"` // the value is a literal of the template instead of {0}
	NoTZ   bool    `json:"notz,omitempty"`   // roundtrip: parse with the tz argument omitted
	Fn     string  `json:"fn,omitempty"`     // error: helper under test
	In     string  `json:"in,omitempty"`     // error / duration: input text
	Want   int64   `json:"want,omitempty"`   // duration: expected seconds
	Idx    int     `json:"idx,omitempty"`    // group: index of the first instant (drives the rotations)
	Us     []int64 `json:"us,omitempty"`     // group
	Pad    int     `json:"pad,omitempty"`    // the unix second / duration is written with this many leading zeros (fixed-width decimal fields of a log)
	Host   string  `json:"host,omitempty"`   // time zone of the process (time.Local) while the case runs; "" = as started (UTC in this sandbox)
}

// hostZones: the statement quantifies over instants and zone arguments; the zone the process itself runs in is
// configuration that must not show in any result (the documented default zone is utc, not the local one).
var hostZones = []string{"", "America/Los_Angeles", "Pacific/Auckland", "Asia/Kolkata", "Europe/London"}

type zoneSpec struct {
	Arg    string // tz argument as written in the template ("" = omitted)
	Stride int    // take every Stride-th boundary instant (spelling variants of utc)
}

var zoneSpecs = []zoneSpec{
	{"", 1}, {"utc", 4}, {"UTC", 4},
	{"Etc/GMT+5", 1}, {"Asia/Kolkata", 1}, {"America/New_York", 1}, {"Europe/London", 1},
	{"Australia/Lord_Howe", 1}, {"Pacific/Apia", 1},
}

func loadZone(arg string) (*time.Location, error) {
	switch arg {
	case "", "utc", "UTC":
		return time.UTC, nil
	}
	return time.LoadLocation(arg)
}

// ---------------------------------------------------------------- evaluation of the real code

type env struct {
	c      *run.Ctx
	kb     *expressions.KeyBuilder
	cache  map[string]*expressions.CompiledKeyBuilder
	zones  map[string]*time.Location
	counts map[string]int64
	ctx    expressions.KeyBuilderContextArray
	host   string // process time zone in force (see Case.Host)
}

func newEnv(c *run.Ctx) *env {
	return &env{c: c, kb: stdlib.NewStdKeyBuilder(), cache: map[string]*expressions.CompiledKeyBuilder{},
		zones: map[string]*time.Location{}, counts: map[string]int64{}}
}

func (e *env) count(name string, n int64) { e.counts[name] += n }

func (e *env) flush() {
	keys := make([]string, 0, len(e.counts))
	for k := range e.counts {
		keys = append(keys, k)
	}
	sort.Strings(keys)
	for _, k := range keys {
		e.c.Count(k, e.counts[k])
		delete(e.counts, k)
	}
}

func (e *env) loc(arg string) *time.Location {
	if l, ok := e.zones[arg]; ok {
		return l
	}
	l, err := loadZone(arg)
	if err != nil {
		e.c.Inconclusive("zone " + arg + " is not available on this host: " + err.Error())
		l = nil
	}
	e.zones[arg] = l
	return l
}

func quoteArg(a string) string {
	if a == "" || strings.ContainsAny(a, " \t") {
		return `"` + a + `"`
	}
	return a
}

// tmpl builds "{fn first args...}"; a trailing omitted tz is simply not passed.
func tmpl(fn, first string, args ...string) string {
	var b strings.Builder
	b.WriteString("{")
	b.WriteString(fn)
	b.WriteString(" ")
	b.WriteString(first)
	for _, a := range args {
		b.WriteString(" ")
		b.WriteString(quoteArg(a))
	}
	b.WriteString("}")
	return b.String()
}

// withTZ appends the tz argument unless it is omitted.
func withTZ(zone string, args ...string) []string {
	if zone == "" {
		return args
	}
	return append(args, zone)
}

// eval compiles (cached unless the template embeds a literal) and evaluates a
// template against one input string. problem != "" for a compile error or panic.
func (e *env) eval(t string, in string, cached bool) (out string, problem string) {
	var ckb *expressions.CompiledKeyBuilder
	if cached {
		ckb = e.cache[t]
	}
	p, val, stack := run.Guard(func() {
		if ckb == nil {
			k, err := e.kb.Compile(t)
			if err != nil {
				problem = fmt.Sprintf("compile error: %v", err)
				return
			}
			ckb = k
			if cached {
				e.cache[t] = k
			}
		}
		e.ctx.Elements = append(e.ctx.Elements[:0], in)
		out = ckb.BuildKey(&e.ctx)
	})
	if p {
		problem = fmt.Sprintf("panic: %v\n%s", val, stack)
	}
	return
}

func (e *env) fail(cs *Case, class, msg string) {
	if cs.Host == "" && e.host != "" {
		cs.Host = e.host
	}
	if cs.Host != "" {
		msg += " [time zone of the process: " + cs.Host + "]"
	}
	b, _ := json.Marshal(cs)
	e.c.Violation(class+":"+run.Hash64(string(b)), msg, cs)
}

func isMarker(s string) bool { return s == "<PARSE-ERROR>" || s == "<BAD-TYPE>" }

func looksLikeError(s string) bool {
	return strings.HasPrefix(s, "<") && strings.HasSuffix(s, ">")
}

// ---------------------------------------------------------------- single evaluations

func (e *env) runCase(cs *Case) {
	if cs.Host != "" && e.host == "" {
		if l, err := time.LoadLocation(cs.Host); err == nil {
			old := time.Local
			time.Local, e.host = l, cs.Host
			e.count("cases_in_a_non_utc_process_zone", 1)
			defer func() { time.Local, e.host = old, "" }()
		}
	}
	switch cs.Op {
	case "group":
		z := e.loc(cs.Zone)
		if z == nil {
			return
		}
		for i, u := range cs.Us {
			e.instant(cs.Zone, u, cs.Idx+i)
		}
	case "timeformat":
		e.opTimeFormat(cs)
	case "timeattr":
		e.opTimeAttr(cs)
	case "buckettime":
		e.opBucketTime(cs)
	case "roundtrip":
		e.opRoundTrip(cs)
	case "timeparse":
		e.opTimeParse(cs)
	case "durrt":
		e.opDurRT(cs)
	case "duration":
		e.opDuration(cs)
	case "error":
		e.opError(cs)
	default:
		e.c.Inconclusive("unknown op in case: " + cs.Op)
	}
}

func (e *env) fields(cs *Case) (Fields, bool) {
	z := e.loc(cs.Zone)
	if z == nil {
		return Fields{}, false
	}
	return fieldsIn(cs.U, z), true
}

func padded(n int64, pad int) string {
	s := strconv.FormatInt(n, 10)
	if pad > 0 && n >= 0 {
		s = strings.Repeat("0", pad) + s
	}
	return s
}

func (e *env) valueArg(cs *Case) (first, in string) {
	s := padded(cs.U, cs.Pad)
	if cs.Pad > 0 {
		e.count("zero_padded_decimal_inputs", 1)
	}
	if cs.Static {
		return s, ""
	}
	return "{0}", s
}

func (e *env) opTimeFormat(cs *Case) {
	f, ok := e.fields(cs)
	if !ok {
		return
	}
	want, kind := f.render(cs.Arg)
	if kind == kAbstain {
		e.count("abstained", 1)
		return
	}
	first, in := e.valueArg(cs)
	t := tmpl("timeformat", first, withTZ(cs.Zone, cs.Arg)...)
	if cs.Arg == "" { // format omitted (only possible together with an omitted tz)
		if cs.Zone != "" {
			e.c.Inconclusive("bad case: format omitted with a tz argument")
			return
		}
		t = tmpl("timeformat", first)
	}
	obs, prob := e.eval(t, in, !cs.Static)
	if prob != "" {
		e.fail(cs, "timeformat-"+strings.SplitN(prob, ":", 2)[0], fmt.Sprintf("%s on %q: %s", t, in, prob))
		return
	}
	e.count("comparisons", 1)
	e.count("cmp_timeformat", 1)
	if !agrees(obs, want, kind) {
		e.fail(cs, "timeformat:"+cs.Arg, fmt.Sprintf("%s with {0}=%q (unix %d in zone %q, fields %s): expected %q, observed %q",
			t, in, cs.U, cs.Zone, f.desc(), want, obs))
	}
}

func (f Fields) desc() string {
	return fmt.Sprintf("%04d-%02d-%02d %02d:%02d:%02d %s off=%ds %s isoweek=%d-W%d", f.Y, f.M, f.D, f.H, f.Mi, f.S, dayNames[f.Wd], f.Off, f.Abbr, f.IsoY, f.IsoW)
}

var attrs = []string{"weekday", "week", "yearweek", "quarter"}

func (e *env) opTimeAttr(cs *Case) {
	f, ok := e.fields(cs)
	if !ok {
		return
	}
	first, in := e.valueArg(cs)
	t := tmpl("timeattr", first, withTZ(cs.Zone, cs.Arg)...)
	obs, prob := e.eval(t, in, !cs.Static)
	if prob != "" {
		e.fail(cs, "timeattr-"+strings.SplitN(prob, ":", 2)[0], fmt.Sprintf("%s on %q: %s", t, in, prob))
		return
	}
	e.count("comparisons", 1)
	e.count("cmp_timeattr", 1)
	good := false
	var want string
	switch cs.Arg {
	case "weekday":
		// the numbering is not documented: 0..6 with Sunday=0 and ISO 1..7 with Sunday=7 both pass
		want = fmt.Sprintf("%d (%s; Sunday = 0 or 7)", f.Wd, dayNames[f.Wd])
		if v, err := strconv.ParseInt(obs, 10, 64); err == nil && v >= 0 && v <= 7 && v%7 == f.Wd && !(f.Wd != 0 && v == 0) {
			good = true
		}
	case "week":
		want = strconv.FormatInt(f.IsoW, 10)
		if v, err := strconv.ParseInt(obs, 10, 64); err == nil && v == f.IsoW && strings.Trim(obs, "0123456789") == "" {
			good = true
		}
	case "yearweek":
		want = fmt.Sprintf("%d-%d (ISO year and ISO week)", f.IsoY, f.IsoW)
		g := digitGroups(obs)
		if len(g) == 2 && !looksLikeError(obs) {
			a, e1 := strconv.ParseInt(g[0], 10, 64)
			b, e2 := strconv.ParseInt(g[1], 10, 64)
			good = e1 == nil && e2 == nil && a == f.IsoY && b == f.IsoW
		}
	case "quarter":
		q := (f.M-1)/3 + 1
		want = strconv.FormatInt(q, 10)
		v, err := strconv.ParseInt(obs, 10, 64)
		good = err == nil && v == q && strings.Trim(obs, "0123456789") == ""
		if !good && err == nil && f.M%3 == 0 && v == q+1 {
			e.c.Violation(fpQuarter, fmt.Sprintf("%s with {0}=%q (unix %d in zone %q = %s): month %d is in quarter %d (January-March = 1), observed %q",
				t, in, cs.U, cs.Zone, f.desc(), f.M, q, obs), cs)
			return
		}
	default:
		e.c.Inconclusive("unknown attribute in case: " + cs.Arg)
		return
	}
	if !good {
		e.fail(cs, "timeattr:"+cs.Arg, fmt.Sprintf("%s with {0}=%q (unix %d in zone %q = %s): expected %s, observed %q",
			t, in, cs.U, cs.Zone, f.desc(), want, obs))
	}
}

// bucketInput renders the instant for buckettime / zone-less time parsing.
func bucketInput(f Fields, form int, nanos int64) (in, layout string, ok bool) {
	switch form {
	case 0:
		return fmt.Sprintf("%04d-%02d-%02d %02d:%02d:%02d", f.Y, f.M, f.D, f.H, f.Mi, f.S), "2006-01-02 15:04:05", true
	case 1:
		s, _ := f.render("ANSIC")
		return s, "ANSIC", true
	case 2:
		s, k := f.render("RFC3339")
		return s, "RFC3339", k == kExact
	case 3:
		s, k := f.render("RFC3339")
		if k != kExact {
			return "", "", false
		}
		// insert the fraction after the seconds (position 19: yyyy-mm-ddThh:mm:ss)
		frac := strings.TrimRight(fmt.Sprintf("%09d", nanos), "0")
		return s[:19] + "." + frac + s[19:], "RFC3339N", true
	case 4:
		return fmt.Sprintf("%04d-%02d-%02dT%02d:%02d:%02d", f.Y, f.M, f.D, f.H, f.Mi, f.S), "2006-01-02T15:04:05", true
	}
	return "", "", false
}

func bucketDepth(name string) int {
	for _, b := range buckets {
		for _, n := range b.Names {
			if n == name {
				return b.Depth
			}
		}
	}
	return 0
}

func (e *env) opBucketTime(cs *Case) {
	f, ok := e.fields(cs)
	if !ok {
		return
	}
	depth := bucketDepth(cs.Arg)
	if depth == 0 {
		e.c.Inconclusive("unknown bucket in case: " + cs.Arg)
		return
	}
	nanos := int64(0)
	if cs.Form == 3 {
		nanos = cs.Nanos
		if nanos <= 0 || nanos > 999999999 {
			nanos = 1
		}
	}
	in, layout, ok := bucketInput(f, cs.Form, nanos)
	if !ok {
		e.count("abstained", 1)
		return
	}
	t := tmpl("buckettime", "{0}", withTZ(cs.Zone, cs.Arg, layout)...)
	obs, prob := e.eval(t, in, true)
	if prob != "" {
		e.fail(cs, "buckettime-"+strings.SplitN(prob, ":", 2)[0], fmt.Sprintf("%s on %q: %s", t, in, prob))
		return
	}
	e.count("comparisons", 1)
	e.count("cmp_buckettime", 1)
	good, wantDesc := bucketAgrees(obs, f, depth, nanos)
	if !good {
		e.fail(cs, "buckettime:"+cs.Arg, fmt.Sprintf("%s with {0}=%q (unix %d in zone %q): expected exactly the fields %s (most significant first), observed %q",
			t, in, cs.U, cs.Zone, wantDesc, obs))
	}
}

// opRoundTrip: {time {timeformat u F Z} F Z} == u to the precision of F.
func (e *env) opRoundTrip(cs *Case) {
	f, ok := e.fields(cs)
	if !ok {
		return
	}
	if f.Off%60 != 0 {
		e.count("abstained", 1)
		return
	}
	want := cs.U
	if cs.Arg == "RFC822Z" {
		// minute precision, two-digit year: exact only inside the conventional 1969..2068 window
		if f.Y < 1969 || f.Y > 2068 {
			e.count("abstained", 1)
			return
		}
		want = cs.U - f.S
	}
	in := strconv.FormatInt(cs.U, 10)
	tf := tmpl("timeformat", "{0}", withTZ(cs.Zone, cs.Arg)...)
	s, prob := e.eval(tf, in, true)
	if prob != "" {
		e.fail(cs, "roundtrip-"+strings.SplitN(prob, ":", 2)[0], fmt.Sprintf("%s on %q: %s", tf, in, prob))
		return
	}
	if looksLikeError(s) {
		e.fail(cs, "roundtrip:"+cs.Arg, fmt.Sprintf("%s with {0}=%q: observed %q instead of a formatted time", tf, in, s))
		return
	}
	pz := cs.Zone
	if cs.NoTZ {
		pz = "" // "processed as UTC, unless explicit in the datetime itself": the printed offset decides
	}
	tp := tmpl("time", "{0}", withTZ(pz, cs.Arg)...)
	obs, prob := e.eval(tp, s, true)
	if prob != "" {
		e.fail(cs, "roundtrip-"+strings.SplitN(prob, ":", 2)[0], fmt.Sprintf("%s on %q: %s", tp, s, prob))
		return
	}
	e.count("comparisons", 1)
	e.count("cmp_roundtrip", 1)
	if obs != strconv.FormatInt(want, 10) {
		e.fail(cs, "roundtrip:"+cs.Arg, fmt.Sprintf("%s with {0}=%q gave %q; %s with {0}=%q: expected %d, observed %q",
			tf, in, s, tp, s, want, obs))
		return
	}
	// the same as one nested expression
	tn := tmpl("time", tf, withTZ(pz, cs.Arg)...)
	obs, prob = e.eval(tn, in, true)
	if prob != "" {
		e.fail(cs, "roundtrip-"+strings.SplitN(prob, ":", 2)[0], fmt.Sprintf("%s on %q: %s", tn, in, prob))
		return
	}
	e.count("comparisons", 1)
	if obs != strconv.FormatInt(want, 10) {
		e.fail(cs, "roundtrip-nested:"+cs.Arg, fmt.Sprintf("%s with {0}=%q: expected %d, observed %q", tn, in, want, obs))
	}
}

// opTimeParse: a zone-less rendering of the instant in Z, parsed with tz Z,
// must give an instant that reads as that wall clock in Z (in a repeated hour
// either of the two instants is right).
func (e *env) opTimeParse(cs *Case) {
	f, ok := e.fields(cs)
	if !ok {
		return
	}
	in, layout, ok := bucketInput(f, cs.Form, 0)
	if !ok {
		e.count("abstained", 1)
		return
	}
	t := tmpl("time", "{0}", withTZ(cs.Zone, layout)...)
	obs, prob := e.eval(t, in, true)
	if prob != "" {
		e.fail(cs, "timeparse-"+strings.SplitN(prob, ":", 2)[0], fmt.Sprintf("%s on %q: %s", t, in, prob))
		return
	}
	e.count("comparisons", 1)
	e.count("cmp_timeparse", 1)
	v, err := strconv.ParseInt(obs, 10, 64)
	good := false
	if err == nil {
		g := fieldsIn(v, e.loc(cs.Zone))
		good = g.Y == f.Y && g.M == f.M && g.D == f.D && g.H == f.H && g.Mi == f.Mi && g.S == f.S
	}
	if !good {
		e.fail(cs, "timeparse:"+layout, fmt.Sprintf("%s with {0}=%q (the wall clock of unix %d in zone %q): expected an instant that reads %q in that zone (e.g. %d), observed %q",
			t, in, cs.U, cs.Zone, in, cs.U, obs))
	}
}

const maxDurSecs = int64(9223372036) // largest whole number of seconds a 64-bit nanosecond count holds

// opDurRT: durationformat(n) is a human-readable text worth n seconds, and duration reads it back as n.
func (e *env) opDurRT(cs *Case) {
	n := cs.U
	in := strconv.FormatInt(n, 10)
	t := "{durationformat {0}}"
	s, prob := e.eval(t, padded(n, cs.Pad), true)
	if prob != "" {
		e.fail(cs, "durationformat-"+strings.SplitN(prob, ":", 2)[0], fmt.Sprintf("%s on %q: %s", t, in, prob))
		return
	}
	e.count("comparisons", 1)
	e.count("cmp_duration", 1)
	ns, ok := parseHuman(s)
	if !ok || ns != n*1e9 {
		e.fail(cs, "durationformat", fmt.Sprintf("%s with {0}=%q: expected a duration text worth %d s (like 4h0m0s), observed %q", t, in, n, s))
		return
	}
	t2 := "{duration {0}}"
	obs, prob := e.eval(t2, s, true)
	if prob != "" {
		e.fail(cs, "duration-"+strings.SplitN(prob, ":", 2)[0], fmt.Sprintf("%s on %q: %s", t2, s, prob))
		return
	}
	e.count("comparisons", 1)
	if obs != in {
		e.fail(cs, "duration-roundtrip", fmt.Sprintf("{durationformat %d} = %q; %s with {0}=%q: expected %d, observed %q", n, s, t2, s, n, obs))
		return
	}
	t3 := "{duration {durationformat {0}}}"
	obs, prob = e.eval(t3, in, true)
	if prob != "" {
		e.fail(cs, "duration-"+strings.SplitN(prob, ":", 2)[0], fmt.Sprintf("%s on %q: %s", t3, in, prob))
		return
	}
	e.count("comparisons", 1)
	if obs != in {
		e.fail(cs, "duration-roundtrip-nested", fmt.Sprintf("%s with {0}=%q: expected %d, observed %q", t3, in, n, obs))
	}
}

// opDuration: a duration written in h, m, s converts to the documented number of seconds.
func (e *env) opDuration(cs *Case) {
	first, in := "{0}", cs.In
	if cs.Static {
		first, in = cs.In, ""
	}
	t := tmpl("duration", first)
	obs, prob := e.eval(t, in, !cs.Static)
	if prob != "" {
		e.fail(cs, "duration-"+strings.SplitN(prob, ":", 2)[0], fmt.Sprintf("%s on %q: %s", t, in, prob))
		return
	}
	e.count("comparisons", 1)
	e.count("cmp_duration", 1)
	if obs != strconv.FormatInt(cs.Want, 10) {
		e.fail(cs, "duration", fmt.Sprintf("%s with {0}=%q: expected %d, observed %q", t, in, cs.Want, obs))
	}
}

// opError: unparseable input yields the documented error marker.
func (e *env) opError(cs *Case) {
	var t string
	switch cs.Fn {
	case "timeformat":
		t = tmpl("timeformat", "{0}", withTZ(cs.Zone, cs.Arg)...)
	case "timeattr":
		t = tmpl("timeattr", "{0}", withTZ(cs.Zone, cs.Arg)...)
	case "durationformat":
		t = "{durationformat {0}}"
	case "duration":
		t = "{duration {0}}"
	case "time":
		t = tmpl("time", "{0}", withTZ(cs.Zone, cs.Layout)...)
	case "buckettime":
		t = tmpl("buckettime", "{0}", withTZ(cs.Zone, cs.Arg, cs.Layout)...)
	default:
		e.c.Inconclusive("unknown fn in error case: " + cs.Fn)
		return
	}
	obs, prob := e.eval(t, cs.In, true)
	if prob != "" {
		e.fail(cs, "error-"+strings.SplitN(prob, ":", 2)[0], fmt.Sprintf("%s on %q: %s", t, cs.In, prob))
		return
	}
	e.count("comparisons", 1)
	e.count("cmp_error_marker", 1)
	if !isMarker(obs) {
		e.fail(cs, "error-marker:"+cs.Fn, fmt.Sprintf("%s with unparseable {0}=%q: expected an error marker (<PARSE-ERROR> or <BAD-TYPE>), observed %q", t, cs.In, obs))
		return
	}
	// the same damaged line once more, straight away, on the same compiled stage (logs repeat their damage): still the marker
	obs2, prob := e.eval(t, cs.In, true)
	e.count("comparisons", 1)
	e.count("cmp_error_marker_repeated", 1)
	if prob == "" && !isMarker(obs2) {
		e.fail(cs, "error-marker-repeat:"+cs.Fn, fmt.Sprintf("%s with unparseable {0}=%q evaluated twice in a row on one compiled expression: the first evaluation gave the marker %q, the second %q", t, cs.In, obs, obs2))
		return
	}
	// the same text as a constant of the template (evaluated at compile time when optimisation folds it)
	if !strings.ContainsAny(cs.In, "{}\"\\ \t\n\r") && cs.In != "" && (cs.Fn == "duration" || cs.Fn == "durationformat" || cs.Fn == "timeformat" || cs.Fn == "timeattr") {
		tc := strings.Replace(t, "{0}", cs.In, 1)
		obs3, prob := e.eval(tc, "", false)
		e.count("comparisons", 1)
		e.count("cmp_error_marker_constant", 1)
		if prob == "" && !isMarker(obs3) {
			e.fail(cs, "error-marker-constant:"+cs.Fn, fmt.Sprintf("%s (the unparseable value %q written as a constant): expected an error marker as for the same text from the match, observed %q", tc, cs.In, obs3))
		}
	}
}

// ---------------------------------------------------------------- one instant in one zone: every helper

func nanosFor(u int64, k int) int64 {
	r := run.NewRand("nanos", u, k)
	switch r.Intn(4) {
	case 0:
		return int64(r.Range(1, 9)) * 100000000
	case 1:
		return int64(r.Range(1, 999)) * 1000000
	case 2:
		return int64(r.Range(1, 999999)) * 1000
	}
	return int64(r.Range(1, 999999999))
}

func (e *env) instant(zone string, u int64, idx int) {
	z := e.loc(zone)
	if z == nil {
		return
	}
	f := fieldsIn(u, z)
	if s := selfCheck(u, z, f); s != "" {
		e.c.Inconclusive(s)
		return
	}
	us := strconv.FormatInt(u, 10)
	e.c.Nontrivial(zone, us)
	e.count("instants", 1)
	quarterKnown := e.c.KnownActive(fpQuarter)

	for _, name := range namedFormats {
		e.opTimeFormat(&Case{Op: "timeformat", Zone: zone, U: u, Arg: name})
	}
	for _, l := range customLayouts {
		e.opTimeFormat(&Case{Op: "timeformat", Zone: zone, U: u, Arg: l})
	}
	if zone == "" {
		e.opTimeFormat(&Case{Op: "timeformat", Zone: zone, U: u, Arg: ""})
	}
	for _, a := range attrs {
		if a == "quarter" && quarterKnown && f.M%3 == 0 {
			e.count("skipped_known_quarter_class", 1)
			continue
		}
		e.opTimeAttr(&Case{Op: "timeattr", Zone: zone, U: u, Arg: a})
	}
	// the same second written as a zero-padded decimal field (still decimal: 0000000060 is sixty), rotating
	if u >= 0 {
		pad := 1 + idx%4
		e.opTimeFormat(&Case{Op: "timeformat", Zone: zone, U: u, Arg: namedFormats[(idx+7)%len(namedFormats)], Pad: pad})
		e.opTimeFormat(&Case{Op: "timeformat", Zone: zone, U: u, Arg: namedFormats[(idx+3)%len(namedFormats)], Pad: pad, Static: true})
		if a := attrs[(idx+1)%len(attrs)]; !(a == "quarter" && quarterKnown && f.M%3 == 0) {
			e.opTimeAttr(&Case{Op: "timeattr", Zone: zone, U: u, Arg: a, Pad: pad})
		}
	}
	// literal (compile-time evaluated) variants, rotating
	e.opTimeFormat(&Case{Op: "timeformat", Zone: zone, U: u, Arg: namedFormats[idx%len(namedFormats)], Static: true})
	if a := attrs[idx%len(attrs)]; !(a == "quarter" && quarterKnown && f.M%3 == 0) {
		e.opTimeAttr(&Case{Op: "timeattr", Zone: zone, U: u, Arg: a, Static: true})
	}
	for _, name := range roundTripFormats {
		e.opRoundTrip(&Case{Op: "roundtrip", Zone: zone, U: u, Arg: name})
		if zone != "" {
			e.opRoundTrip(&Case{Op: "roundtrip", Zone: zone, U: u, Arg: name, NoTZ: true})
		}
	}
	for _, form := range []int{0, 1, 4} {
		e.opTimeParse(&Case{Op: "timeparse", Zone: zone, U: u, Form: form})
	}
	k := 0
	for _, b := range buckets {
		for _, n := range b.Names {
			form := (idx + k) % 4
			cs := &Case{Op: "buckettime", Zone: zone, U: u, Arg: n, Form: form}
			if form == 3 {
				cs.Nanos = nanosFor(u, k)
			}
			e.opBucketTime(cs)
			k++
		}
	}
}

// ---------------------------------------------------------------- workload

// transitions finds every change of UTC offset or abbreviation of loc in [0,maxU) (first second of the new rule).
func transitions(loc *time.Location) []int64 {
	var out []int64
	type zo struct {
		off  int64
		abbr string
	}
	at := func(u int64) zo { o, a := zoneAt(u, loc); return zo{o, a} }
	const step = 86400
	for u := int64(step); u < maxU+step; u += step {
		lo := u - step
		for at(lo) != at(u) {
			// first second in (lo,u] whose zone differs from the one at lo
			base := at(lo)
			a, b := lo, u
			for b-a > 1 {
				mid := (a + b) / 2
				if at(mid) == base {
					a = mid
				} else {
					b = mid
				}
			}
			out = append(out, b)
			lo = b
		}
	}
	return out
}

// boundaryInstants: unix seconds around every month/quarter/year start (as seen
// on the wall clock of loc), every ISO-week-1 start and every zone transition.
func boundaryInstants(loc *time.Location, thorough bool) []int64 {
	set := map[int64]struct{}{}
	add := func(u int64) {
		if u >= 0 && u < maxU {
			set[u] = struct{}{}
		}
	}
	// wall-clock second W (counted as if UTC) -> the instants that show it in loc
	wall := func(w int64) []int64 {
		var us []int64
		o1, _ := zoneAt(w, loc)
		u1 := w - o1
		o2, _ := zoneAt(u1, loc)
		us = append(us, u1)
		if o2 != o1 {
			us = append(us, w-o2)
		}
		return us
	}
	deltas := []int64{-86399, -3600, -59, -1, 0, 1, 59, 3600, 86399}
	if thorough {
		deltas = append(deltas, -43200, -1800, -60, 60, 1800, 43200)
	}
	for y := int64(1970); y <= 2100; y++ {
		for m := int64(1); m <= 12; m++ {
			w := daysFromCivil(y, m, 1) * 86400
			for _, u := range wall(w) {
				for _, d := range deltas {
					add(u + d)
				}
			}
		}
		// Monday of ISO week 1 = Monday of the week holding 4 January
		d4 := daysFromCivil(y, 1, 4)
		wd := ((d4 % 7) + 7 + 4) % 7 // 0 = Sunday
		mon := d4 - (wd+6)%7
		for _, u := range wall(mon * 86400) {
			for _, d := range deltas {
				add(u + d)
			}
		}
		if thorough { // every ISO week start of the year, not only week 1
			for k := int64(1); k < 53; k++ {
				for _, u := range wall((mon + 7*k) * 86400) {
					for _, d := range []int64{-3600, -1, 0, 1, 3600} {
						add(u + d)
					}
				}
			}
		}
	}
	for _, t := range transitions(loc) {
		for _, d := range []int64{-3600, -1800, -1, 0, 1, 1800, 3600} {
			add(t + d)
		}
	}
	out := make([]int64, 0, len(set))
	for u := range set {
		out = append(out, u)
	}
	sort.Slice(out, func(i, j int) bool { return out[i] < out[j] })
	return out
}

const groupSize = 32

func Run(c *run.Ctx) {
	e := newEnv(c)
	defer e.flush()
	if c.Replay != nil {
		var cs Case
		if err := json.Unmarshal(c.Replay, &cs); err != nil {
			c.Inconclusive("bad replay: " + err.Error())
			return
		}
		c.Begin(&cs, 120*time.Second)
		e.runCase(&cs)
		c.End()
		return
	}
	gi := 0 // global group index: decides the shard
	if c.Mine(gi) {
		pinned(e)
	}
	gi++
	for zi, zs := range zoneSpecs {
		loc := e.loc(zs.Arg)
		if loc == nil {
			continue
		}
		all := boundaryInstants(loc, c.Thorough())
		var us []int64
		for i, u := range all {
			if i%zs.Stride == 0 {
				us = append(us, u)
			}
		}
		nb := len(us)
		nr := c.N(6000, 100000) / zs.Stride
		for i := 0; i < nr; i++ {
			r := c.Rand("instant", zi, i)
			us = append(us, int64(r.U64()%uint64(maxU)))
		}
		if c.Shard == 0 {
			c.Count("boundary_instants", int64(nb))
			c.Count("random_instants", int64(nr))
			c.SetAdd("zones", zs.Arg)
			if zs.Stride == 1 {
				c.Count("zone_transitions", int64(len(transitions(loc))))
			}
		}
		for at := 0; at < len(us); at += groupSize {
			end := min(at+groupSize, len(us))
			if c.Mine(gi) {
				cs := &Case{Op: "group", Zone: zs.Arg, Idx: at, Us: us[at:end], Host: hostZones[(at/groupSize)%len(hostZones)]}
				c.Begin(cs, 120*time.Second)
				before := e.counts["comparisons"]
				e.runCase(cs)
				c.Evals(int(e.counts["comparisons"]-before) - 1)
				c.End()
				if at == 0 {
					c.Sample(map[string]any{"zone": zs.Arg, "unix": us[at], "fields": fieldsIn(us[at], loc).desc(),
						"helpers": "timeformat x22 named formats + 2 custom layouts, timeattr x4, time round trips x6 formats, zone-less time x3, buckettime x14 buckets"})
				}
				e.flush()
			}
			gi++
			if c.Violations() >= 6 {
				return
			}
		}
	}
	durations(e, &gi)
	errorsWorkload(e, &gi)
}

// pinned: witnesses that are always executed (regression cases once fixed) and the documentation's own examples.
func pinned(e *env) {
	c := e.c
	cases := []*Case{
		// DESIGN §6 #28: 1 March 2020 is in quarter 1
		{Op: "timeattr", Zone: "", U: 1583020800, Arg: "quarter", Static: true},
		{Op: "timeattr", Zone: "", U: 1583020800, Arg: "quarter"},
		// documentation examples
		{Op: "duration", In: "24h", Want: 86400, Static: true},
		{Op: "duration", In: "1h", Want: 3600},
		{Op: "durrt", U: 14400},
		{Op: "roundtrip", Zone: "", U: 1460653945, Arg: "NGINX"},
		{Op: "timeformat", Zone: "utc", U: 1460653945, Arg: "RFC3339"},
	}
	for _, cs := range cases {
		c.Begin(cs, 60*time.Second)
		e.runCase(cs)
		c.End()
	}
	// "14/Apr/2016:19:12:25 +0200" (a real nginx time_local) is 1460653945
	obs, prob := e.eval("{time {0} NGINX}", "14/Apr/2016:19:12:25 +0200", true)
	e.count("comparisons", 1)
	if prob != "" || obs != "1460653945" {
		e.fail(&Case{Op: "error", Fn: "time", Layout: "NGINX", In: "14/Apr/2016:19:12:25 +0200"}, "time-nginx-example",
			fmt.Sprintf("{time {0} NGINX} with {0}=%q: expected 1460653945, observed %q %s", "14/Apr/2016:19:12:25 +0200", obs, prob))
	}
	e.flush()
}

func durations(e *env, gi *int) {
	c := e.c
	edge := []int64{0, 1, 2, 59, 60, 61, 119, 120, 3599, 3600, 3601, 7199, 7200, 86399, 86400, 86401, 90061, 604800, 31536000,
		2147483647, 2147483648, 4294967296, maxDurSecs - 1, maxDurSecs}
	var ns []int64
	for _, v := range edge {
		ns = append(ns, v)
		if v != 0 {
			ns = append(ns, -v)
		}
	}
	nr := c.N(4000, 150000)
	for i := 0; i < nr; i++ {
		r := c.Rand("durrt", i)
		bits := r.Range(1, 33)
		v := int64(r.U64() & (uint64(1)<<uint(bits) - 1))
		if v > maxDurSecs {
			v = maxDurSecs
		}
		if r.Intn(4) == 0 {
			v = -v
		}
		switch r.Intn(6) {
		case 0:
			v -= v % 60
		case 1:
			v -= v % 3600
		}
		ns = append(ns, v)
	}
	for _, n := range ns {
		if c.Mine(*gi) {
			cs := &Case{Op: "durrt", U: n}
			if n >= 0 && *gi%3 == 0 {
				cs.Pad = 1 + *gi%5
			}
			c.Begin(cs, 60*time.Second)
			c.Nontrivial("durrt", strconv.FormatInt(n, 10))
			e.runCase(cs)
			c.End()
		}
		*gi++
	}
	// forward: texts in h, m, s (the documented units)
	nf := c.N(3000, 100000)
	for i := 0; i < nf; i++ {
		if !c.Mine(*gi) {
			*gi++
			continue
		}
		*gi++
		r := c.Rand("durfwd", i)
		var sb strings.Builder
		var want int64
		neg := r.Intn(8) == 0
		if neg {
			sb.WriteString("-")
		}
		parts := 0
		for parts == 0 {
			if r.Intn(2) == 0 {
				switch r.Intn(5) {
				case 0: // a fraction that is a whole number of seconds
					q := int64(r.Range(0, 5000))
					fr := r.Pick([]string{".5", ".25", ".75"})
					fmt.Fprintf(&sb, "%d%sh", q, fr)
					want += q*3600 + map[string]int64{".5": 1800, ".25": 900, ".75": 2700}[fr]
				case 1: // any hundredth of an hour is a whole number of seconds (0.01h = 36s): 1.13h is 4068s, not 4067
					q, hs := int64(r.Range(0, 300)), int64(r.Range(0, 99))
					fmt.Fprintf(&sb, "%d.%02dh", q, hs)
					want += q*3600 + hs*36
				default:
					q := int64(r.Range(0, 200000))
					if r.Intn(3) == 0 {
						q = int64(r.Range(0, 48))
					}
					fmt.Fprintf(&sb, "%dh", q)
					want += q * 3600
				}
				parts++
			}
			if r.Intn(2) == 0 {
				if x := r.Intn(6); x == 0 {
					q := int64(r.Range(0, 5000))
					fmt.Fprintf(&sb, "%d.5m", q)
					want += q*60 + 30
				} else if x == 1 { // any tenth of a minute is a whole number of seconds
					q, t := int64(r.Range(0, 5000)), int64(r.Range(0, 9))
					fmt.Fprintf(&sb, "%d.%dm", q, t)
					want += q*60 + t*6
				} else {
					q := int64(r.Range(0, 100000))
					if r.Intn(2) == 0 {
						q = int64(r.Range(0, 59))
					}
					fmt.Fprintf(&sb, "%dm", q)
					want += q * 60
				}
				parts++
			}
			if r.Intn(2) == 0 {
				q := int64(r.Range(0, 10000000))
				if r.Intn(2) == 0 {
					q = int64(r.Range(0, 59))
				}
				fmt.Fprintf(&sb, "%ds", q)
				want += q
				parts++
			}
		}
		if neg {
			want = -want
		}
		cs := &Case{Op: "duration", In: sb.String(), Want: want, Static: r.Intn(4) == 0}
		c.Begin(cs, 60*time.Second)
		c.Nontrivial("duration", cs.In)
		e.runCase(cs)
		c.End()
	}
	e.flush()
}

// errorsWorkload: inputs that are certainly not a number / not a time in the given format.
func errorsWorkload(e *env, gi *int) {
	c := e.c
	notNumbers := []string{"", "abc", "x123", "12:30:00", "2020-03-01T00:00:00Z", "--1", "1 2", "twelve", "1583020800s", "NaN"}
	notDurations := []string{"", "abc", "5x", "h", "1h30q", "ten", "1:30", "s5", "5h-", "--5s"}
	var cases []*Case
	zonesHere := []string{"", "utc", "America/New_York", "Asia/Kolkata"}
	rnd := func(stream string, i int) string {
		r := c.Rand(stream, i)
		return string(r.Bytes(r.Range(1, 12), []byte("abcdefghijklmnopqrstuvwxyzABCDEFGHIJKLMNOPQRSTUVWXYZ_#!")))
	}
	nRand := c.N(40, 400)
	for i := 0; i < nRand; i++ {
		notNumbers = append(notNumbers, rnd("notnum", i))
		notDurations = append(notDurations, rnd("notdur", i))
	}
	for zi, z := range zonesHere {
		for i, s := range notNumbers {
			cases = append(cases, &Case{Op: "error", Fn: "timeformat", Zone: z, Arg: namedFormats[(i+zi)%len(namedFormats)], In: s})
			cases = append(cases, &Case{Op: "error", Fn: "timeattr", Zone: z, Arg: attrs[(i+zi)%len(attrs)], In: s})
		}
	}
	for _, s := range notNumbers {
		cases = append(cases, &Case{Op: "error", Fn: "durationformat", In: s})
	}
	for _, s := range notDurations {
		cases = append(cases, &Case{Op: "error", Fn: "duration", In: s})
	}
	// not-a-time inputs for explicit formats
	layouts := append([]string{"ANSIC", "2006-01-02 15:04:05"}, roundTripFormats...)
	nT := c.N(60, 600)
	for zi, z := range zonesHere {
		loc := e.loc(z)
		if loc == nil {
			continue
		}
		for li, layout := range layouts {
			var bad []string
			bad = append(bad, "", "abc", "not a date", "0", "-")
			for i := 0; i < nT/len(layouts)+1; i++ {
				r := c.Rand("nottime", zi, li, i)
				u := int64(r.U64() % uint64(maxU))
				f := fieldsIn(u, loc)
				render := func(f Fields, layout string) string {
					if layout == "2006-01-02 15:04:05" {
						s, _, _ := bucketInput(f, 0, 0)
						return s
					}
					s, _ := f.render(layout)
					return s
				}
				good := render(f, layout)
				if good == "" {
					continue
				}
				switch r.Intn(5) {
				case 0: // a valid time of another format
					other := layouts[(li+1+r.Intn(len(layouts)-1))%len(layouts)]
					if o := render(f, other); o != "" && !(layout == "RFC3339N" && other == "RFC3339") && !(layout == "RFC3339" && other == "RFC3339N") {
						bad = append(bad, o)
					}
				case 1: // a date that does not exist: day 31 of a 30-day month / 30 February
					g := f
					g.M = []int64{2, 4, 6, 9, 11}[r.Intn(5)]
					g.D = 31
					if g.M == 2 && r.Bool() {
						g.D = 30
					}
					bad = append(bad, render(g, layout))
				case 2: // 29 February of a non-leap year
					g := f
					g.M, g.D = 2, 29
					for g.Y%4 == 0 {
						g.Y++
					}
					bad = append(bad, render(g, layout))
				case 3: // hour 24..29 / minute 60..99
					g := f
					if r.Bool() {
						g.H = int64(r.Range(24, 29))
					} else {
						g.Mi = int64(r.Range(60, 99))
					}
					bad = append(bad, render(g, layout))
				default: // letters spliced in
					p := r.Intn(len(good))
					bad = append(bad, good[:p]+"?x?"+good[p:])
				}
			}
			for i, s := range bad {
				cases = append(cases, &Case{Op: "error", Fn: "time", Zone: z, Layout: layout, In: s})
				b := buckets[(i+li)%len(buckets)]
				cases = append(cases, &Case{Op: "error", Fn: "buckettime", Zone: z, Arg: b.Names[i%2], Layout: layout, In: s})
			}
		}
	}
	for _, cs := range cases {
		if c.Mine(*gi) {
			c.Begin(cs, 60*time.Second)
			c.Nontrivial("error", cs.Fn, cs.Zone, cs.Arg, cs.Layout, cs.In)
			e.runCase(cs)
			c.End()
		}
		*gi++
	}
	e.flush()
}
