package p18

// Reference calendar for C18. Everything here is derived from the unix second
// and the zone's UTC offset/abbreviation at that second (the only thing taken
// from Go's time package + host tzdata). Dates are computed with the
// proleptic-Gregorian day-count algorithm, strings are composed field by
// field; neither time.Format nor rare's layout table is used.

import (
	"fmt"
	"strconv"
	"strings"
	"time"
)

func floorDiv(a, b int64) int64 {
	q := a / b
	if a%b != 0 && ((a < 0) != (b < 0)) {
		q--
	}
	return q
}

// daysFromCivil: days since 1970-01-01 of the proleptic Gregorian date y-m-d.
func daysFromCivil(y, m, d int64) int64 {
	if m <= 2 {
		y--
	}
	era := floorDiv(y, 400)
	yoe := y - era*400
	mp := (m + 9) % 12
	doy := (153*mp+2)/5 + d - 1
	doe := yoe*365 + yoe/4 - yoe/100 + doy
	return era*146097 + doe - 719468
}

func civilFromDays(z int64) (y, m, d int64) {
	z += 719468
	era := floorDiv(z, 146097)
	doe := z - era*146097
	yoe := (doe - doe/1460 + doe/36524 - doe/146096) / 365
	y = yoe + era*400
	doy := doe - (365*yoe + yoe/4 - yoe/100)
	mp := (5*doy + 2) / 153
	d = doy - (153*mp+2)/5 + 1
	if mp < 10 {
		m = mp + 3
	} else {
		m = mp - 9
	}
	if m <= 2 {
		y++
	}
	return
}

// Fields are the calendar fields of one instant in one zone.
type Fields struct {
	Y, M, D    int64
	H, Mi, S   int64
	Wd         int64 // 0 = Sunday
	IsoY, IsoW int64
	Off        int64  // seconds east of UTC
	Abbr       string // zone abbreviation ("" = unknown)
}

func fieldsAt(u int64, off int64, abbr string) Fields {
	local := u + off
	days := floorDiv(local, 86400)
	sod := local - days*86400
	var f Fields
	f.Y, f.M, f.D = civilFromDays(days)
	f.H, f.Mi, f.S = sod/3600, (sod/60)%60, sod%60
	f.Wd = ((days % 7) + 7 + 4) % 7 // 1970-01-01 was a Thursday
	isoWd := (f.Wd + 6) % 7         // Monday = 0
	thu := days - isoWd + 3         // the Thursday of this ISO week decides the ISO year
	ty, _, _ := civilFromDays(thu)
	f.IsoY = ty
	f.IsoW = (thu-daysFromCivil(ty, 1, 1))/7 + 1
	f.Off = off
	f.Abbr = abbr
	return f
}

// zoneAt is the single place the reference trusts Go + tzdata.
func zoneAt(u int64, loc *time.Location) (off int64, abbr string) {
	name, o := time.Unix(u, 0).In(loc).Zone()
	return int64(o), name
}

func fieldsIn(u int64, loc *time.Location) Fields {
	off, abbr := zoneAt(u, loc)
	return fieldsAt(u, off, abbr)
}

// selfCheck compares the hand-made fields with Go's own; a disagreement is a
// harness problem (INCONCLUSIVE), never a verdict about rare.
func selfCheck(u int64, loc *time.Location, f Fields) string {
	t := time.Unix(u, 0).In(loc)
	y, m, d := t.Date()
	h, mi, s := t.Clock()
	iy, iw := t.ISOWeek()
	if int64(y) != f.Y || int64(m) != f.M || int64(d) != f.D || int64(h) != f.H || int64(mi) != f.Mi || int64(s) != f.S ||
		int64(t.Weekday()) != f.Wd || int64(iy) != f.IsoY || int64(iw) != f.IsoW {
		return fmt.Sprintf("reference calendar disagrees with Go at u=%d zone=%s: ref=%+v go=%s isoweek=%d-%d", u, loc, f, t.Format(time.RFC3339), iy, iw)
	}
	return ""
}

var monthNames = []string{"", "January", "February", "March", "April", "May", "June", "July", "August", "September", "October", "November", "December"}
var dayNames = []string{"Sunday", "Monday", "Tuesday", "Wednesday", "Thursday", "Friday", "Saturday"}

func (f Fields) mon() string  { return monthNames[f.M][:3] }
func (f Fields) wday() string { return dayNames[f.Wd][:3] }

// numOff renders the UTC offset as +hhmm / +hh:mm. ok=false when the offset is
// not a whole number of minutes (never the case for the zones used after 1970).
func (f Fields) numOff(colon bool) (string, bool) {
	o := f.Off
	sign := "+"
	if o < 0 {
		sign = "-"
		o = -o
	}
	if o%60 != 0 {
		return "", false
	}
	if colon {
		return fmt.Sprintf("%s%02d:%02d", sign, o/3600, (o/60)%60), true
	}
	return fmt.Sprintf("%s%02d%02d", sign, o/3600, (o/60)%60), true
}

// named formats the documentation lists for timeformat. The texts of the
// standard ones are the well-known ANSI C / Unix date / Ruby / RFC layouts the
// documentation refers to by name.
const (
	kExact   = iota // compare the whole string
	kNum            // numeric part: compare the integer value (padding not documented)
	kNumOff         // numeric zone offset: +hhmm, colon tolerated
	kNginx          // dd/Mon/yyyy:hh:mm:ss +hhmm ; padding of the day not documented
	kAbstain        // nothing can be said (e.g. unknown abbreviation)
)

var namedFormats = []string{
	"ANSIC", "UNIX", "RUBY", "RFC822", "RFC822Z", "RFC1123", "RFC1123Z", "RFC3339", "RFC3339N", "NGINX",
	"MONTH", "MONTHNAME", "MNTH", "DAY", "WEEKDAY", "WDAY", "YEAR", "HOUR", "MINUTE", "SECOND", "TIMEZONE", "NTIMEZONE",
}

// customLayouts: user-defined layouts (reference time Mon Jan 2 15:04:05 MST 2006).
var customLayouts = []string{"2006-01-02 15:04:05", "Jan 2 2006 3:04PM"}

// roundTripFormats: named formats holding date, time and a numeric offset.
var roundTripFormats = []string{"RFC3339", "RFC3339N", "RFC1123Z", "RFC822Z", "RUBY", "NGINX"}

// render returns the expected text of `timeformat` for a named format, and how
// strictly it is to be compared.
func (f Fields) render(name string) (string, int) {
	hms := fmt.Sprintf("%02d:%02d:%02d", f.H, f.Mi, f.S)
	off, offOK := f.numOff(false)
	needAbbr := func(s string) (string, int) {
		if f.Abbr == "" {
			return "", kAbstain
		}
		return s, kExact
	}
	needOff := func(s string) (string, int) {
		if !offOK {
			return "", kAbstain
		}
		return s, kExact
	}
	switch name {
	case "ANSIC": // Mon Jan _2 15:04:05 2006
		return fmt.Sprintf("%s %s %2d %s %04d", f.wday(), f.mon(), f.D, hms, f.Y), kExact
	case "UNIX": // Mon Jan _2 15:04:05 MST 2006
		return needAbbr(fmt.Sprintf("%s %s %2d %s %s %04d", f.wday(), f.mon(), f.D, hms, f.Abbr, f.Y))
	case "RUBY": // Mon Jan 02 15:04:05 -0700 2006
		return needOff(fmt.Sprintf("%s %s %02d %s %s %04d", f.wday(), f.mon(), f.D, hms, off, f.Y))
	case "RFC822": // 02 Jan 06 15:04 MST
		return needAbbr(fmt.Sprintf("%02d %s %02d %02d:%02d %s", f.D, f.mon(), f.Y%100, f.H, f.Mi, f.Abbr))
	case "RFC822Z": // 02 Jan 06 15:04 -0700
		return needOff(fmt.Sprintf("%02d %s %02d %02d:%02d %s", f.D, f.mon(), f.Y%100, f.H, f.Mi, off))
	case "RFC1123": // Mon, 02 Jan 2006 15:04:05 MST
		return needAbbr(fmt.Sprintf("%s, %02d %s %04d %s %s", f.wday(), f.D, f.mon(), f.Y, hms, f.Abbr))
	case "RFC1123Z": // Mon, 02 Jan 2006 15:04:05 -0700
		return needOff(fmt.Sprintf("%s, %02d %s %04d %s %s", f.wday(), f.D, f.mon(), f.Y, hms, off))
	case "RFC3339", "RFC3339N": // whole seconds: no fraction is printed
		z := "Z"
		if f.Off != 0 {
			var ok bool
			if z, ok = f.numOff(true); !ok {
				return "", kAbstain
			}
		}
		return fmt.Sprintf("%04d-%02d-%02dT%s%s", f.Y, f.M, f.D, hms, z), kExact
	case "NGINX": // 14/Apr/2016:19:12:25 +0200
		if !offOK {
			return "", kAbstain
		}
		return fmt.Sprintf("%d/%s/%04d:%s %s", f.D, f.mon(), f.Y, hms, off), kNginx
	case "": // format argument omitted: documented default RFC3339
		return f.render("RFC3339")
	// custom layouts written with Go's reference time, as the documentation describes
	case "2006-01-02 15:04:05":
		return fmt.Sprintf("%04d-%02d-%02d %s", f.Y, f.M, f.D, hms), kExact
	case "Jan 2 2006 3:04PM":
		h12, ap := f.H%12, "AM"
		if h12 == 0 {
			h12 = 12
		}
		if f.H >= 12 {
			ap = "PM"
		}
		return fmt.Sprintf("%s %d %04d %d:%02d%s", f.mon(), f.D, f.Y, h12, f.Mi, ap), kExact
	case "MONTH":
		return strconv.FormatInt(f.M, 10), kNum
	case "MONTHNAME":
		return monthNames[f.M], kExact
	case "MNTH":
		return f.mon(), kExact
	case "DAY":
		return strconv.FormatInt(f.D, 10), kNum
	case "WEEKDAY":
		return dayNames[f.Wd], kExact
	case "WDAY":
		return f.wday(), kExact
	case "YEAR":
		return strconv.FormatInt(f.Y, 10), kNum
	case "HOUR":
		return strconv.FormatInt(f.H, 10), kNum
	case "MINUTE":
		return strconv.FormatInt(f.Mi, 10), kNum
	case "SECOND":
		return strconv.FormatInt(f.S, 10), kNum
	case "TIMEZONE":
		return needAbbr(f.Abbr)
	case "NTIMEZONE":
		if !offOK {
			return "", kAbstain
		}
		return off, kNumOff
	}
	return "", kAbstain
}

// agrees compares an observed timeformat output with the expectation.
func agrees(obs, want string, kind int) bool {
	switch kind {
	case kExact:
		return obs == want
	case kNum:
		if obs == "" || strings.Trim(obs, "0123456789") != "" {
			return false
		}
		a, err := strconv.ParseInt(obs, 10, 64)
		b, _ := strconv.ParseInt(want, 10, 64)
		return err == nil && a == b
	case kNumOff:
		return strings.ReplaceAll(obs, ":", "") == want
	case kNginx:
		// the day may be printed as "1", "01" or " 1"
		o := strings.TrimLeft(obs, " ")
		if strings.HasPrefix(o, "0") && len(o) > 1 && o[1] >= '1' && o[1] <= '9' {
			o = o[1:]
		}
		return o == want
	}
	return true
}

// digitGroups splits a string into its maximal runs of decimal digits.
func digitGroups(s string) []string {
	var out []string
	cur := -1
	for i := 0; i <= len(s); i++ {
		if i < len(s) && s[i] >= '0' && s[i] <= '9' {
			if cur < 0 {
				cur = i
			}
			continue
		}
		if cur >= 0 {
			out = append(out, s[cur:i])
			cur = -1
		}
	}
	return out
}

// bucket depth: number of leading calendar fields kept (year=1 … second=6, nano=7).
var buckets = []struct {
	Names []string // documented spellings: the emphasised prefix and the full word
	Depth int
}{
	{[]string{"n", "nano"}, 7},
	{[]string{"s", "second"}, 6},
	{[]string{"m", "minute"}, 5},
	{[]string{"h", "hour"}, 4},
	{[]string{"d", "day"}, 3},
	{[]string{"mo", "month"}, 2},
	{[]string{"y", "year"}, 1},
}

// bucketAgrees: the output of buckettime must consist of exactly the kept
// fields, most significant first (separators and padding are not documented).
// nanos is the sub-second part of the input (0..999999999).
func bucketAgrees(obs string, f Fields, depth int, nanos int64) (bool, string) {
	want := []int64{f.Y, f.M, f.D, f.H, f.Mi, f.S}
	n := depth
	if n > 6 {
		n = 6
	}
	want = want[:n]
	g := digitGroups(obs)
	wantDesc := fmt.Sprint(want)
	var frac string
	if depth == 7 && nanos != 0 {
		frac = strings.TrimRight(fmt.Sprintf("%09d", nanos), "0")
		wantDesc += " + fraction ." + frac
	}
	if strings.ContainsAny(obs, "<>") {
		return false, wantDesc
	}
	if len(g) < n {
		return false, wantDesc
	}
	for i := 0; i < n; i++ {
		v, err := strconv.ParseInt(g[i], 10, 64)
		if err != nil || v != want[i] {
			return false, wantDesc
		}
	}
	rest := g[n:]
	if frac != "" {
		if len(rest) != 1 || strings.TrimRight(rest[0], "0") != frac {
			return false, wantDesc
		}
		return true, wantDesc
	}
	// nothing finer than the bucket may be shown (an all-zero fraction is tolerated for nano)
	if len(rest) == 0 {
		return true, wantDesc
	}
	if depth == 7 && len(rest) == 1 && strings.Trim(rest[0], "0") == "" {
		return true, wantDesc
	}
	return false, wantDesc
}

// parseHuman parses a human-readable duration made of decimal numbers followed
// by a unit (h, m, s, ms, us, µs, ns) into nanoseconds. Written from the
// documented shape ("4h0m0s"); independent of time.ParseDuration.
func parseHuman(s string) (ns int64, ok bool) {
	neg := false
	if strings.HasPrefix(s, "-") {
		neg = true
		s = s[1:]
	} else if strings.HasPrefix(s, "+") {
		s = s[1:]
	}
	if s == "" {
		return 0, false
	}
	if s == "0" {
		return 0, true
	}
	var total float64
	var itotal int64
	exact := true
	for s != "" {
		i := 0
		for i < len(s) && (s[i] >= '0' && s[i] <= '9' || s[i] == '.') {
			i++
		}
		if i == 0 {
			return 0, false
		}
		num := s[:i]
		s = s[i:]
		j := 0
		for j < len(s) && !(s[j] >= '0' && s[j] <= '9' || s[j] == '.') {
			j++
		}
		unit := s[:j]
		s = s[j:]
		var mult int64
		switch unit {
		case "h":
			mult = 3600e9
		case "m":
			mult = 60e9
		case "s":
			mult = 1e9
		case "ms":
			mult = 1e6
		case "us", "µs", "μs":
			mult = 1e3
		case "ns":
			mult = 1
		default:
			return 0, false
		}
		if strings.Contains(num, ".") {
			v, err := strconv.ParseFloat(num, 64)
			if err != nil {
				return 0, false
			}
			exact = false
			total += v * float64(mult)
		} else {
			v, err := strconv.ParseInt(num, 10, 64)
			if err != nil {
				return 0, false
			}
			itotal += v * mult
		}
	}
	if !exact {
		itotal += int64(total + 0.5)
	}
	if neg {
		itotal = -itotal
	}
	return itotal, true
}
