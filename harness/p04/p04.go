// Package p04 decides C04: line splitting is exact and returned line buffers
// are never overwritten (pkg/readahead, both scanners).
package p04

import (
	"bytes"
	"encoding/base64"
	"encoding/json"
	"errors"
	"fmt"
	"io"
	"runtime"
	"time"

	"rare/pkg/readahead"

	"verifharness/internal/mon"
	"verifharness/internal/ref"
	"verifharness/internal/reg"
	"verifharness/internal/run"
)

func init() { reg.Register("C04", Run) }

// Step is one Read() result of the scripted reader.
type Step struct {
	N   int    `json:"n"`             // bytes handed out (capped by len(p) and by remaining data)
	Err string `json:"err,omitempty"` // "", "EOF", "EIO", "UNEXPECTED"
}

// Case is one C04 execution.
type Case struct {
	Data  string `json:"data_b64"`
	Steps []Step `json:"steps"`
	Buf   int    `json:"buf"`
	Kind  string `json:"kind"` // immediate | buffered
	// CheckEvery: re-verify all held slices after every k scans (1 = every scan)
	CheckEvery int `json:"check_every"`
	// NoCB: no OnError callback is registered; a read error must end the stream all the same
	NoCB bool `json:"no_callback,omitempty"`
}

var errEIO = errors.New("injected EIO")

func toErr(s string) error {
	switch s {
	case "EOF":
		return io.EOF
	case "EIO":
		return errEIO
	case "UNEXPECTED":
		return io.ErrUnexpectedEOF
	}
	return nil
}

// scripted reader. It always terminates: when the script is exhausted it hands
// out whatever is left in full-size reads and then (0, io.EOF). After a
// terminal error it is hostile: it would keep handing out the rest of the
// data if asked again (a scanner that reads on after an error shows up as
// extra tokens).
type scripted struct {
	data    []byte
	pos     int
	steps   []Step
	i       int
	handed  []byte // bytes actually handed out up to (and including) the first error / EOF
	done    bool   // a terminal (error or EOF) result was returned
	readsAfterTerminal int
	reads   int
	zeroRun int
}

func (s *scripted) Read(p []byte) (int, error) {
	s.reads++
	if len(p) == 0 {
		return 0, nil
	}
	if s.done {
		s.readsAfterTerminal++
		// hostile continuation
		n := copy(p, s.data[s.pos:])
		s.pos += n
		if n == 0 {
			return 0, io.EOF
		}
		return n, nil
	}
	var st Step
	if s.i < len(s.steps) {
		st = s.steps[s.i]
		s.i++
	} else {
		st = Step{N: len(p)}
		if s.pos >= len(s.data) {
			st = Step{N: 0, Err: "EOF"}
		}
	}
	n := st.N
	if n > len(p) {
		n = len(p)
	}
	if n > len(s.data)-s.pos {
		n = len(s.data) - s.pos
	}
	copy(p, s.data[s.pos:s.pos+n])
	s.handed = append(s.handed, s.data[s.pos:s.pos+n]...)
	s.pos += n
	err := toErr(st.Err)
	if err != nil {
		s.done = true
	}
	if n == 0 && err == nil {
		s.zeroRun++
		if s.zeroRun > 64 { // never stall forever: not part of the property
			s.zeroRun = 0
			return s.Read(p)
		}
	} else {
		s.zeroRun = 0
	}
	return n, err
}

func runCase(c *run.Ctx, cs *Case, fpPrefix string) bool {
	data, _ := base64.StdEncoding.DecodeString(cs.Data)
	rd := &scripted{data: data, steps: cs.Steps}
	var sc readahead.Scanner
	ok := true
	again := false
	fail := func(class, msg string) {
		ok = false
		c.Violation(fpPrefix+class+":"+run.Hash64(cs.Data, fmt.Sprint(cs.Steps), fmt.Sprint(cs.Buf), cs.Kind, fmt.Sprint(cs.NoCB)), msg, cs)
	}
	p, val, stack := run.Guard(func() {
		if cs.Kind == "buffered" {
			sc = readahead.NewBuffered(rd, cs.Buf)
		} else {
			sc = readahead.NewImmediate(rd, cs.Buf)
		}
		errCalls := 0
		var errSeen []error
		if !cs.NoCB {
			sc.OnError(func(e error) { errCalls++; errSeen = append(errSeen, e) })
		}
		var hold mon.Hold
		scans := 0
		for sc.Scan() {
			scans++
			tok := sc.Bytes()
			hold.Add(tok)
			if cs.CheckEvery > 0 && scans%cs.CheckEvery == 0 {
				from := 0
				if cs.CheckEvery > 1 && scans&(scans-1) != 0 {
					from = hold.Len() - 256 // big streams: sliding window online, everything at powers of two and at the end
				}
				if i := hold.CheckFrom(from); i >= 0 {
					fail("overwrite", fmt.Sprintf("slice returned for token %d changed after scan %d: was %s now %s",
						i, scans, run.Q(string(hold.Copy(i))), run.Q(string(hold.Live(i)))))
					return
				}
			}
			if scans > len(data)+8 {
				fail("runaway", "scanner yields more tokens than the stream has bytes")
				return
			}
		}
		// Scan() must keep returning false
		for k := 0; k < 2; k++ {
			if sc.Scan() {
				fail("scan-after-end", "Scan() returned true after it had returned false")
				return
			}
		}
		// lifetime: force GC + garbage, then re-verify every held slice
		if hold.Len() > 0 && (len(data) > 4096) {
			junk := make([][]byte, 0, 64)
			for k := 0; k < 64; k++ {
				junk = append(junk, bytes.Repeat([]byte{0xAA}, 4096))
			}
			runtime.GC()
			_ = junk
		}
		if i := hold.Check(); i >= 0 {
			fail("overwrite", fmt.Sprintf("slice returned for token %d changed by the end of the scan: was %s now %s",
				i, run.Q(string(hold.Copy(i))), run.Q(string(hold.Live(i)))))
			return
		}
		want := ref.SplitLines(rd.handed)
		if hold.Len() != len(want) {
			fail("tokens", fmt.Sprintf("token count %d != reference %d for handed-out stream %s", hold.Len(), len(want), run.Q(string(rd.handed))))
			return
		}
		for i := range want {
			if !bytes.Equal(hold.Copy(i), want[i]) {
				fail("tokens", fmt.Sprintf("token %d = %s, reference %s (stream %s)", i, run.Q(string(hold.Copy(i))), run.Q(string(want[i])), run.Q(string(rd.handed))))
				return
			}
		}
		// error callback discipline
		termErr := ""
		for _, s := range cs.Steps[:min(rd.i, len(cs.Steps))] {
			if s.Err != "" {
				termErr = s.Err
				break
			}
		}
		wantCalls := 0
		if termErr == "EIO" || termErr == "UNEXPECTED" {
			wantCalls = 1
			if cs.NoCB {
				wantCalls = 0
				c.Count("error_cases_without_callback", 1)
			}
		}
		if errCalls != wantCalls {
			fail("onerror", fmt.Sprintf("OnError called %d times, expected %d (terminal result %q)", errCalls, wantCalls, termErr))
			return
		}
		if wantCalls == 1 && !errors.Is(errSeen[0], toErr(termErr)) {
			fail("onerror", fmt.Sprintf("OnError got %v, expected %v", errSeen[0], toErr(termErr)))
			return
		}
		if rd.readsAfterTerminal > 0 {
			fail("read-after-end", fmt.Sprintf("reader was read %d more times after it returned a terminal error/EOF", rd.readsAfterTerminal))
			return
		}
		c.Count("tokens_checked", int64(len(want)))
		c.Count("reads_served", int64(rd.reads))
		if wantCalls == 1 {
			c.Count("error_cases", 1)
			again = true
		}
	})
	if p {
		fail("panic", fmt.Sprintf("panic: %v\n%s", val, stack))
	}
	if ok && again {
		// the same stream without a registered callback: "ends the stream, bytes read before it are delivered" does not
		// depend on anybody listening for the error
		cs2 := *cs
		cs2.NoCB = true
		return runCase(c, &cs2, fpPrefix)
	}
	return ok
}

func nontrivial(data []byte, steps []Step) bool {
	if !bytes.Contains(data, []byte{'\n'}) {
		return false
	}
	return len(steps) >= 2
}

func Run(c *run.Ctx) {
	if c.Replay != nil {
		var cs Case
		if err := json.Unmarshal(c.Replay, &cs); err != nil {
			c.Inconclusive("bad replay: " + err.Error())
			return
		}
		c.Begin(&cs, 60*time.Second)
		runCase(c, &cs, "")
		c.End()
		return
	}
	dense(c)
	random(c)
}

// dense: every string of length <= L over {a,\n,\r} x every partition into
// reads x buffer sizes 1..8 x terminal result at every position x both scanners.
func dense(c *run.Ctx) {
	L := c.N(5, 7)
	alpha := []byte{'a', '\n', '\r'}
	idx := 0
	var gen func(prefix []byte)
	gen = func(prefix []byte) {
		if c.Mine(idx) {
			denseString(c, append([]byte(nil), prefix...))
		}
		idx++
		if len(prefix) == L {
			return
		}
		for _, a := range alpha {
			gen(append(prefix, a))
		}
	}
	gen(nil)
}

func denseString(c *run.Ctx, data []byte) {
	n := len(data)
	b64 := base64.StdEncoding.EncodeToString(data)
	c.Begin(map[string]any{"dense": b64}, 120*time.Second)
	defer c.End()
	nparts := 1
	if n > 1 {
		nparts = 1 << (n - 1)
	}
	maxBuf := 8
	if c.Thorough() {
		maxBuf = 10
	}
	for mask := 0; mask < nparts; mask++ {
		// partition: bit i set = cut after byte i
		var sizes []int
		cur := 0
		for i := 0; i < n; i++ {
			cur++
			if i == n-1 || mask&(1<<i) != 0 {
				sizes = append(sizes, cur)
				cur = 0
			}
		}
		// terminal variants: clean EOF after the data; (n>0,EOF) on the last read;
		// an error EIO as (0,err) after read k, or as (n>0,err) on read k.
		type term struct {
			at   int // index of the step that carries / precedes the terminal
			with bool
			err  string
		}
		terms := []term{{at: len(sizes), err: "EOF"}}
		if len(sizes) > 0 {
			terms = append(terms, term{at: len(sizes) - 1, with: true, err: "EOF"})
		}
		for k := 0; k <= len(sizes); k++ {
			terms = append(terms, term{at: k, err: "EIO"})
			if k < len(sizes) {
				terms = append(terms, term{at: k, with: true, err: "EIO"})
			}
		}
		for _, t := range terms {
			var steps []Step
			for k, sz := range sizes {
				if k == t.at && t.with {
					steps = append(steps, Step{N: sz, Err: t.err})
					break
				}
				if k == t.at {
					break
				}
				steps = append(steps, Step{N: sz})
			}
			if !t.with {
				steps = append(steps, Step{N: 0, Err: t.err})
			}
			for buf := 1; buf <= maxBuf; buf++ {
				for _, kind := range []string{"immediate", "buffered"} {
					if kind == "buffered" && buf < 2 {
						continue
					}
					cs := &Case{Data: b64, Steps: steps, Buf: buf, Kind: kind, CheckEvery: 1}
					c.Evals(1)
					c.Count("dense_cases", 1)
					if nontrivial(data, steps) {
						c.Nontrivial(b64, fmt.Sprint(steps), fmt.Sprint(buf), kind)
					}
					if !runCase(c, cs, "dense:") && c.Violations() >= 20 {
						return
					}
				}
			}
		}
	}
	if n == 3 {
		c.Sample(map[string]any{"dense_string": string(data), "note": "all partitions x buf 1..8 x terminal results x both scanners"})
	}
}

func random(c *run.Ctx) {
	N := c.N(30000, 400000)
	for i := 0; i < N; i++ {
		if !c.Mine(i) {
			continue
		}
		r := c.Rand("random", i)
		cs := genCase(r, c.Thorough())
		c.Begin(cs, 120*time.Second)
		data, _ := base64.StdEncoding.DecodeString(cs.Data)
		if nontrivial(data, cs.Steps) {
			c.Nontrivial(cs.Data, fmt.Sprint(cs.Steps), fmt.Sprint(cs.Buf), cs.Kind)
		}
		c.Count("random_cases", 1)
		c.Max("max_stream_bytes", int64(len(data)))
		if i < 3 {
			c.Sample(map[string]any{"kind": cs.Kind, "buf": cs.Buf, "stream_len": len(data), "reads": len(cs.Steps),
				"first_steps": cs.Steps[:min(6, len(cs.Steps))], "stream_head": run.Q(string(data[:min(60, len(data))]))})
		}
		runCase(c, cs, "random:")
		c.End()
		if c.Violations() >= 20 {
			return
		}
	}
}

func genCase(r *run.Rand, thorough bool) *Case {
	// buffer size classes
	var buf int
	switch r.Intn(6) {
	case 0:
		buf = r.Range(1, 4)
	case 1:
		buf = r.Range(5, 64)
	case 2:
		buf = r.Range(65, 1024)
	case 3:
		buf = 4096
	case 4:
		buf = 128 * 1024
	default:
		buf = r.Range(2, 300)
	}
	kind := "immediate"
	if r.Intn(3) == 0 {
		kind = "buffered"
		if buf < 2 {
			buf = 2
		}
	}
	// stream
	var total int
	switch r.Intn(8) {
	case 0:
		total = r.Range(0, 16)
	case 1, 2, 3:
		total = r.Range(0, 6*buf+8)
		if total > 300000 {
			total = r.Range(0, 300000)
		}
	case 4:
		total = r.Range(0, 4096)
	case 5:
		total = r.Range(0, 64*1024)
	default:
		total = r.Range(0, 3*buf+3)
		if total > 512*1024 {
			total = 512 * 1024
		}
	}
	if total > 512*1024 {
		total = 512 * 1024
	}
	data := make([]byte, 0, total)
	for len(data) < total {
		// a line whose length relates to the buffer size
		var ll int
		switch r.Intn(8) {
		case 0:
			ll = 0
		case 1:
			ll = r.Range(0, 3)
		case 2:
			ll = buf - 1 + r.Range(-1, 2)
		case 3:
			ll = 2*buf + r.Range(-2, 2)
		case 4:
			ll = 3*buf + r.Range(-2, 2)
		case 5:
			ll = r.Range(0, 2*buf+2)
		default:
			ll = r.Range(0, 40)
		}
		if ll < 0 {
			ll = 0
		}
		if ll > total-len(data) {
			ll = total - len(data)
		}
		for k := 0; k < ll; k++ {
			switch r.Intn(24) {
			case 0:
				data = append(data, '\r')
			case 1:
				data = append(data, 0)
			case 2:
				data = append(data, 0xff)
			default:
				data = append(data, byte('a'+r.Intn(26)))
			}
		}
		if len(data) < total {
			if r.Intn(4) == 0 && len(data)+1 < total {
				data = append(data, '\r')
			}
			data = append(data, '\n')
		}
	}
	if r.Intn(3) == 0 && len(data) > 0 && data[len(data)-1] == '\n' {
		data = data[:len(data)-1] // unterminated tail
	}
	// chunking
	var steps []Step
	pos := 0
	mode := r.Intn(5)
	for pos < len(data) && len(steps) < 100000 {
		var n int
		switch mode {
		case 0:
			n = 1
		case 1:
			n = r.Range(1, 3)
		case 2:
			n = r.Range(1, 2*buf+1)
		case 3:
			// cut right before / after a delimiter
			nx := bytes.IndexAny(data[pos:], "\r\n")
			if nx < 0 {
				n = len(data) - pos
			} else {
				n = nx + r.Intn(3)
				if n == 0 {
					n = 1
				}
			}
		default:
			n = r.Range(1, 70000)
		}
		if len(data) > 20000 && mode < 2 {
			n = r.Range(1, 9000) // keep step lists bounded for big streams
		}
		if r.Intn(9) == 0 {
			steps = append(steps, Step{N: 0}) // stall
		}
		steps = append(steps, Step{N: n})
		pos += n
	}
	// terminal
	switch r.Intn(6) {
	case 0: // (n>0, EOF) on last read
		if len(steps) > 0 && steps[len(steps)-1].N > 0 {
			steps[len(steps)-1].Err = "EOF"
		} else {
			steps = append(steps, Step{Err: "EOF"})
		}
	case 1: // error in the middle as (0, err)
		k := r.Intn(len(steps) + 1)
		steps = append(steps[:k:k], Step{Err: r.Pick([]string{"EIO", "UNEXPECTED"})})
	case 2: // error with data
		if len(steps) > 0 {
			k := r.Intn(len(steps))
			steps = steps[:k+1]
			if steps[k].N == 0 {
				steps[k].N = 1
			}
			steps[k].Err = r.Pick([]string{"EIO", "UNEXPECTED"})
		} else {
			steps = append(steps, Step{Err: "EIO"}) // error on the very first read
		}
	default:
		steps = append(steps, Step{Err: "EOF"})
	}
	every := 1
	if len(data) > 8192 {
		every = 64
	}
	return &Case{Data: base64.StdEncoding.EncodeToString(data), Steps: steps, Buf: buf, Kind: kind, CheckEvery: every}
}
