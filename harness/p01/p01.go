// Package p01 decides C01: every input line is read exactly once and classified
// exactly once; totals and emitted keys equal the sequential evaluation, for
// every configuration, chunking and interleaving observed.
package p01

import (
	"bytes"
	"encoding/json"
	"fmt"
	"os"
	"os/exec"
	"path/filepath"
	"regexp"
	"sort"
	"strconv"
	"strings"
	"time"

	"verifharness/internal/pipe"
	"verifharness/internal/reg"
	"verifharness/internal/run"
)

func init() { reg.Register("C01", Run) }

// Case is what is journalled / replayed: the generator coordinates, not the
// (possibly multi-megabyte) corpus; generation is deterministic in them.
type Case struct {
	Kind  string `json:"kind"` // structured | raw | reader-structured | reader-raw | cli | cli-stdin | pinned
	Index int    `json:"index"`
	Seed  uint64 `json:"seed"`
	Tier  string `json:"tier"`
	Name  string `json:"name,omitempty"`
}

func gen(c *run.Ctx, cs Case) *pipe.Workload {
	r := run.NewRand(cs.Seed, "C01", cs.Kind, cs.Index)
	thorough := cs.Tier == "thorough"
	o := pipe.GenOpts{MaxInputs: 12, MaxLines: 3000, LongLines: true, Gunzip: true}
	if thorough {
		o.MaxInputs = 40
	}
	switch cs.Kind {
	case "structured", "cli":
		return pipe.GenStructured(r, o)
	case "raw":
		return pipe.GenRaw(r, o)
	case "reader-structured", "cli-stdin":
		o.ReaderMode = true
		if cs.Index%6 == 0 || cs.Kind == "cli-stdin" && cs.Index%4 == 0 {
			o.Pauses = 2
		}
		o.MaxLines = 1200
		return pipe.GenStructured(r, o)
	case "reader-raw":
		o.ReaderMode = true
		return pipe.GenRaw(r, o)
	case "samelines":
		return pipe.GenSameLines(r)
	case "gone":
		// some named paths cannot be opened: the lines of all the others are still read exactly once, and the run ends
		var w *pipe.Workload
		if cs.Index%2 == 0 {
			w = pipe.GenStructured(r, o)
		} else {
			w = pipe.GenRaw(r, o)
		}
		c.Count("unopenable_paths_named", int64(pipe.AddGone(r, w)))
		return w
	case "aligned":
		return pipe.GenAligned(r, false)
	case "reader-aligned":
		return pipe.GenAligned(r, true)
	case "pinned":
		return pinned(cs.Name)
	}
	return nil
}

// pinned hand-written shapes that must always be exercised.
func pinned(name string) *pipe.Workload {
	mk := func(cfg pipe.Config, datas ...string) *pipe.Workload {
		w := &pipe.Workload{Scenario: "pinned:" + name, Matcher: pipe.MatcherSpec{Kind: "regex", Pattern: pipe.StructuredRegex},
			Extract: pipe.StructuredExtract, Ignore: append([]string(nil), pipe.StructuredIgnore...), Seed: 99, Cfg: cfg}
		for i, d := range datas {
			w.Inputs = append(w.Inputs, pipe.Input{Name: fmt.Sprintf("f%d", i), Data: []byte(d)})
		}
		return w
	}
	base := pipe.Config{Mode: "files", Batch: 2, Workers: 3, Readers: 2, Buffer: 1, GoMaxProcs: 4, Delay: "jitter", Consumer: "fast"}
	switch name {
	case "no-trailing-newline":
		return mk(base, "f0:1:M:a\nf0:2:M:b\nf0:3:M:tail-without-newline", "f1:1:M:x")
	case "exact-batch-multiple":
		return mk(base, "f0:1:M:a\nf0:2:M:b\nf0:3:M:c\nf0:4:M:d\n", "f1:1:M:a\nf1:2:I:b\n")
	case "all-classes":
		return mk(base, "f0:1:M:a\nf0:2:E:a\nf0:3:I:a\nf0:4:W:a\nf0:5:U:a\n\n\r\nf0:8:M:z\r\nf0:9:J:a\n")
	case "empty-files":
		return mk(base, "", "\n", "", "f3:1:M:only\n", "")
	case "many-workers-batch1":
		b := base
		b.Batch, b.Workers, b.Readers = 1, 16, 8
		var datas []string
		for i := 0; i < 9; i++ {
			var sb strings.Builder
			for n := 1; n <= 300; n++ {
				fmt.Fprintf(&sb, "f%d:%d:%c:p\n", i, n, "MEIWUJ"[n%6])
			}
			datas = append(datas, sb.String())
		}
		return mk(b, datas...)
	}
	return nil
}

var pinnedNames = []string{"no-trailing-newline", "exact-batch-multiple", "all-classes", "empty-files", "many-workers-batch1"}

func Run(c *run.Ctx) {
	if c.Replay != nil {
		var cs Case
		if json.Unmarshal(c.Replay, &cs) == nil && cs.Kind != "" {
			one(c, cs)
		}
		return
	}
	type plan struct {
		kind string
		n    int
	}
	plans := []plan{
		{"structured", c.N(110, 2600)},
		{"raw", c.N(90, 2200)},
		{"reader-structured", c.N(40, 800)},
		{"reader-raw", c.N(20, 400)},
		{"aligned", c.N(12, 200)},
		{"reader-aligned", c.N(6, 100)},
		{"samelines", c.N(48, 800)},
		{"gone", c.N(24, 400)},
		{"cli", c.N(32, 480)},
		{"cli-stdin", c.N(8, 120)},
	}
	if c.Flavour == "race" {
		plans = []plan{{"structured", 700}, {"raw", 500}, {"reader-structured", 200}, {"reader-raw", 100}, {"aligned", 60}, {"reader-aligned", 30}, {"samelines", 100}}
	}
	idx := 0
	for _, nm := range pinnedNames {
		if c.Mine(idx) {
			if !one(c, Case{Kind: "pinned", Name: nm, Seed: c.Seed, Tier: c.Tier}) {
				return
			}
		}
		idx++
	}
	for _, p := range plans {
		for i := 0; i < p.n; i++ {
			if c.Mine(idx) {
				if !one(c, Case{Kind: p.kind, Index: i, Seed: c.Seed, Tier: c.Tier}) {
					return
				}
			}
			idx++
		}
		c.Checkpoint()
	}
}

// one runs a case; false means the shard must stop (a run did not terminate).
func one(c *run.Ctx, cs Case) bool {
	w := gen(c, cs)
	if w == nil {
		return true
	}
	c.Begin(cs, 600*time.Second)
	defer c.End()
	dir := filepath.Join(c.WorkDir, "c")
	truth, err := pipe.Reference(w, dir)
	if err != nil {
		c.Inconclusive("generator produced a workload the reference cannot evaluate: " + err.Error())
		return true
	}
	pipe.FixClasses(w, truth)
	classes := map[byte]int{}
	for _, t := range truth {
		classes[t.Class]++
	}
	if cs.Kind == "cli" || cs.Kind == "cli-stdin" {
		cli(c, cs, w, truth)
		return true
	}
	os.RemoveAll(dir)
	os.MkdirAll(dir, 0o755)
	defer os.RemoveAll(dir)
	obs := pipe.Run(w, dir, 400*time.Second)
	if obs.TimedOut {
		stuck, text := pipe.StuckEvidence()
		if stuck {
			c.Violation("no-termination:"+w.Cfg.String(), "input exhausted but the pipeline never closed its output; every rare goroutine is blocked with identical stacks in two dumps 2 s apart:\n"+text, cs)
		} else {
			c.Inconclusive("pipeline run exceeded 400 s without stuck-state evidence: " + w.Cfg.String())
		}
		return false
	}
	fs := pipe.JudgeC01(w, dir, truth, obs)
	for _, f := range fs {
		c.Violation(f.Class+":"+w.Scenario+":"+w.Cfg.String(), fmt.Sprintf("%s [scenario %s, config %s, matcher %s %q, extract %q, ignore %q, %d inputs]",
			f.Msg, w.Scenario, w.Cfg.String(), w.Matcher.Kind, w.Matcher.Pattern, w.Extract, w.Ignore, len(w.Inputs)), cs)
	}
	// what was observed
	c.Count("batches_observed", int64(len(obs.Tap)))
	c.Count("lines_judged", int64(len(truth)))
	c.Count("matches_judged", int64(len(obs.Matches)))
	c.Count("timer_flushes", int64(obs.TimerFlushes))
	if w.Cfg.Gunzip {
		c.Count("gunzip_runs", 1)
		for _, in := range w.Inputs {
			if in.Gz {
				c.Count("gunzip_inputs_compressed", 1)
			} else if n := len(in.Data); n >= 1 && n <= 9 {
				c.Count("gunzip_plain_inputs_shorter_than_a_gzip_header", 1)
			} else {
				c.Count("gunzip_inputs_plain", 1)
			}
		}
	}
	if obs.WorkersUsed >= 2 {
		c.Count("runs_with_2plus_workers_active", 1)
	}
	c.Max("max_workers_active", int64(obs.WorkersUsed))
	for k, v := range obs.HookHits {
		c.Count("hook:"+k, v)
	}
	c.SetAdd("configs", w.Cfg.String())
	c.SetAdd("interleavings", obs.InterleaveSig)
	if len(classes) >= 2 && len(obs.Tap) >= 2 {
		c.Nontrivial(cs.Kind, strconv.Itoa(cs.Index), cs.Name, w.Cfg.String(), obs.InterleaveSig)
	}
	if cs.Index < 2 && cs.Kind == "structured" {
		c.Sample(map[string]any{"kind": cs.Kind, "config": w.Cfg.String(), "inputs": len(w.Inputs), "lines": len(truth),
			"classes": fmt.Sprintf("M=%d I=%d U=%d", classes['M'], classes['I'], classes['U']), "batches": len(obs.Tap), "interleaving": obs.InterleaveSig})
	}
	return true
}

var summaryRe = regexp.MustCompile(`Matched: (\d+) / (\d+)(?: \(Ignored: (\d+)\))?`)

// cli runs the real binary: rare --nf --nocolor filter -m RE -e '{src}:{line}:{0}' [-i ..] files...
func cli(c *run.Ctx, cs Case, w *pipe.Workload, truth []pipe.LineTruth) {
	if c.RareBin == "" {
		c.Inconclusive("no rare binary for the CLI sub-check")
		return
	}
	dir := filepath.Join(c.WorkDir, "cli")
	os.RemoveAll(dir)
	os.MkdirAll(dir, 0o755)
	defer os.RemoveAll(dir)
	r := run.NewRand(cs.Seed, "C01cli", cs.Kind, cs.Index)
	args := []string{"--nf", "--nocolor", "filter", "-m", w.Matcher.Pattern, "-e", "{src}:{line}:" + w.Extract,
		"--batch", strconv.Itoa(w.Cfg.Batch), "--workers", strconv.Itoa(w.Cfg.Workers), "--batch-buffer", strconv.Itoa(w.Cfg.Buffer)}
	for _, ig := range w.Ignore {
		args = append(args, "-i", ig)
	}
	// NOTE: with the {src}:{line}: prefix the key is never empty, so class E lines
	// count as matched in this sub-check; the expected values are derived accordingly.
	stdin := cs.Kind == "cli-stdin"
	var paths []string
	if !stdin {
		args = append(args, "--readers", strconv.Itoa(w.Cfg.Readers))
		if w.Cfg.Gunzip {
			args = append(args, "-z")
			c.Count("cli_gunzip_runs", 1)
		}
		ps, err := pipe.Materialise(w, dir)
		if err != nil {
			c.Inconclusive("materialise: " + err.Error())
			return
		}
		paths = ps
		if len(paths) == 0 {
			return // no arguments would mean stdin
		}
		args = append(args, paths...)
	}
	cmd := exec.Command(c.RareBin, args...)
	points := []string{"", "batch.beforeSend=sleep:300us:p0.3,worker.beforeSend=sleep:200us:p0.3",
		"files.beforeClose=sleep:3ms,worker.beforeCloseOut=sleep:3ms,batch.beforeSendLast=sleep:1ms:p0.5",
		"worker.afterRecv=yield,batch.beforeSend=yield"}[r.Intn(4)]
	cmd.Env = append(os.Environ(), "VERIF_POINTS="+points, "VERIF_SEED="+strconv.FormatUint(cs.Seed, 10),
		"GOMAXPROCS="+strconv.Itoa(w.Cfg.GoMaxProcs))
	var stderr bytes.Buffer
	mpl := 0
	for _, p := range paths {
		mpl = max(mpl, len(p))
	}
	stdout := pipe.CapWriter{Max: pipe.OutputBound(w, mpl), OnOverflow: func() { cmd.Process.Kill() }}
	cmd.Stdout, cmd.Stderr = &stdout, &stderr
	var feedErr error
	if stdin {
		pw, err := cmd.StdinPipe()
		if err != nil {
			c.Inconclusive("stdin pipe: " + err.Error())
			return
		}
		go func() {
			data := w.Inputs[0].Data
			pos := 0
			for _, st := range w.Inputs[0].Steps {
				if st.PauseMs > 0 {
					time.Sleep(time.Duration(st.PauseMs) * time.Millisecond)
				}
				n := st.N
				if n > len(data)-pos {
					n = len(data) - pos
				}
				if n > 0 {
					if _, e := pw.Write(data[pos : pos+n]); e != nil {
						feedErr = e
						break
					}
					pos += n
				}
			}
			if pos < len(data) && feedErr == nil {
				pw.Write(data[pos:])
			}
			pw.Close()
		}()
	}
	done := make(chan error, 1)
	if err := cmd.Start(); err != nil {
		c.Inconclusive("cannot start rare: " + err.Error())
		return
	}
	go func() { done <- cmd.Wait() }()
	var werr error
	select {
	case werr = <-done:
	case <-time.After(120 * time.Second):
		cmd.Process.Signal(os.Interrupt)
		cmd.Process.Kill()
		<-done
		c.Inconclusive("rare filter did not finish within 120 s (cli sub-check); args=" + strings.Join(args[:12], " "))
		return
	}
	code := 0
	if ee, ok := werr.(*exec.ExitError); ok {
		code = ee.ExitCode()
	} else if werr != nil && !stdout.Overflowed() {
		c.Inconclusive("rare: " + werr.Error())
		return
	}
	fp := func(class string) string { return "cli-" + class + ":" + w.Cfg.String() }
	ctxs := fmt.Sprintf("[cli %s, %d inputs, config %s, points %q]", cs.Kind, len(w.Inputs), w.Cfg.String(), points)
	if stdout.Overflowed() {
		c.Violation(fp("runaway-output"), fmt.Sprintf("rare filter wrote more than %d bytes for inputs that cannot produce that much (lines are emitted without end); it was killed %s", stdout.Max, ctxs), cs)
		return
	}
	if strings.Contains(stderr.String(), "panic:") || strings.Contains(stderr.String(), "fatal error:") {
		c.Violation(fp("crash"), "rare crashed: "+tailStr(stderr.String(), 1500)+" "+ctxs, cs)
		return
	}
	// expected
	nameOf := map[string]string{}
	for i := range w.Inputs {
		if stdin {
			nameOf[w.Inputs[i].Name] = "<stdin>"
		} else {
			nameOf[w.Inputs[i].Name] = paths[i]
		}
	}
	want := map[string]int{}
	var R, M, I int
	for _, t := range truth {
		R++
		switch {
		case t.Class == 'M' || (t.Class == 'I' && t.Idx != nil && !ignoredByExpr(w, t)):
			// matched by the regex and not ignored by an ignore expression: the key
			// "{src}:{line}:..." is non-empty, so the line is emitted
			M++
			want[fmt.Sprintf("%s:%d:%s", nameOf[t.Source], t.LineNo, keyFor(w, t))]++
		case t.Class == 'I':
			I++
		}
	}
	got := map[string]int{}
	outS := stdout.String()
	if strings.HasSuffix(outS, "\n") {
		outS = outS[:len(outS)-1]
	}
	if len(outS) > 0 {
		for _, l := range strings.Split(outS, "\n") {
			got[l]++
		}
	}
	bad := 0
	var keys []string
	for k := range want {
		keys = append(keys, k)
	}
	sort.Strings(keys)
	for _, k := range keys {
		if got[k] != want[k] && bad < 3 {
			bad++
			c.Violation(fp("not-exactly-once"), fmt.Sprintf("output line %s appears %d times, expected %d %s", run.Q(k), got[k], want[k], ctxs), cs)
		}
	}
	for k, n := range got {
		if want[k] == 0 && bad < 3 {
			bad++
			c.Violation(fp("spurious-output"), fmt.Sprintf("output line %s (x%d) corresponds to no matched input line %s", run.Q(k), n, ctxs), cs)
		}
	}
	m := summaryRe.FindStringSubmatch(stderr.String())
	if m == nil {
		c.Violation(fp("no-summary"), "no 'Matched: M / R' summary on stderr: "+run.Q(tailStr(stderr.String(), 300))+" "+ctxs, cs)
	} else {
		gm, _ := strconv.Atoi(m[1])
		gr, _ := strconv.Atoi(m[2])
		gi := 0
		if m[3] != "" {
			gi, _ = strconv.Atoi(m[3])
		}
		if gm != M || gr != R || gi != I {
			c.Violation(fp("summary"), fmt.Sprintf("summary says Matched: %d / %d (Ignored: %d); true counts %d / %d (Ignored: %d) %s", gm, gr, gi, M, R, I, ctxs), cs)
		}
	}
	wantCode := 0
	if M == 0 {
		wantCode = 1
	}
	if code != wantCode {
		c.Violation(fp("exit"), fmt.Sprintf("exit status %d, expected %d (matched=%d) stderr=%s %s", code, wantCode, M, run.Q(tailStr(stderr.String(), 300)), ctxs), cs)
	}
	c.Count("cli_runs", 1)
	c.Count("cli_lines_judged", int64(R))
	c.SetAdd("configs", "cli:"+w.Cfg.String())
	if M > 0 && R > M {
		c.Nontrivial("cli", cs.Kind, strconv.Itoa(cs.Index), w.Cfg.String())
	}
}

func ignoredByExpr(w *pipe.Workload, t pipe.LineTruth) bool {
	// Class I by the reference is either "ignore expression truthy" or "empty key".
	// Structured corpora: class letter I means the ignore expression fired.
	if len(t.Text) == 0 {
		return false
	}
	p := bytes.SplitN(t.Text, []byte(":"), 4)
	return len(p) == 4 && (string(p[2]) == "I" || string(p[2]) == "J")
}

func keyFor(w *pipe.Workload, t pipe.LineTruth) string {
	// StructuredExtract: "" for class E, else the whole line
	p := bytes.SplitN(t.Text, []byte(":"), 4)
	if len(p) == 4 && string(p[2]) == "E" {
		return ""
	}
	return string(t.Text)
}

func tailStr(s string, n int) string {
	if len(s) > n {
		return s[len(s)-n:]
	}
	return s
}
